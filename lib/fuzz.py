"""E2: coverage-guided fuzzing (libFuzzer + ASan + UBSan) of the resettable component harnesses."""
import glob
import json
import os
import re
import shutil
import subprocess
import time

import rsvlib
from rsvlib import VERIF, REPO, BUILD_ROOT, SAN, CSTD, GUARD, VARIANTS, log, run, sha_tree, parallel_compile, BuildError

FUZZ_CF = ['-fsanitize=fuzzer-no-link']


def build_fuzzer(st):
    """Builds <harness> + core with coverage instrumentation and links the libFuzzer entry."""
    variant = st.get('variant', 'core')
    extra, mpi_src, incs = VARIANTS[variant]
    key = sha_tree([os.path.join(REPO, 'src'), os.path.join(VERIF, 'hx'), os.path.join(VERIF, 'fz')],
                   extra=json.dumps([SAN, GUARD, extra, 'fuzz']))
    bdir = os.path.join(BUILD_ROOT, key)
    os.makedirs(bdir, exist_ok=True)
    os.utime(bdir)
    exe = os.path.join(bdir, 'fuzz-%s-%s' % (st['harness'], variant))
    if os.path.exists(exe):
        return exe
    odir = os.path.join(bdir, 'fz-' + variant)
    os.makedirs(odir, exist_ok=True)
    jobs, objs = [], []
    excl = set(st.get('exclude', []))
    srcs = [(os.path.join(REPO, 'src', s), s) for s in rsvlib.CORE_SRCS + [mpi_src] if s not in excl]
    srcs += [(os.path.join(VERIF, 'hx', f), 'hx_' + f) for f in st['hx']]
    srcs += [(os.path.join(VERIF, 'fz', 'fuzz_entry.c'), 'fuzz_entry.c')]
    for path, name in srcs:
        o = os.path.join(odir, name.replace('/', '_')[:-2] + '.o')
        objs.append(o)
        if not os.path.exists(o):
            cmd = ['clang'] + CSTD + SAN + FUZZ_CF + GUARD + extra + ['-Wno-unused-function', '-I' + os.path.join(REPO, 'src'),
                                                                    '-I' + os.path.join(VERIF, 'hx'), '-c', path, '-o', o + '.tmp']
            jobs.append((cmd, o))
    if jobs:
        parallel_compile(jobs)
        for _, o in jobs:
            os.rename(o + '.tmp', o)
    r = run(['clang++', '-fsanitize=fuzzer,address,undefined', '-o', exe + '.tmp'] + objs + ['-lm', '-lpthread'],
            stdout=subprocess.PIPE, stderr=subprocess.STDOUT)
    if r.returncode:
        raise BuildError(r.stdout.decode(errors='replace'))
    os.rename(exe + '.tmp', exe)
    return exe


def run_fuzz_stage(prop, st, par, seed, jobs, scratch, env):
    t0 = time.time()
    exe = build_fuzzer(st)
    workers = min(jobs, par.get('workers', 8))
    budget = par.get('time_budget', 120)
    procs = []
    cdirs = []
    tag = rsvlib.stage_tag(st)
    seeds = glob.glob(os.path.join(VERIF, 'replay', '*', st['harness'], '*.tape'))
    for w in range(workers):
        cdir = os.path.join(scratch, 'corpus-%s-%d' % (st['harness'], w))
        os.makedirs(cdir, exist_ok=True)
        cdirs.append(cdir)
        if w % 2 == 0:  # half of the workers start from the saved regression tapes, half from an empty corpus
            for s in seeds:
                shutil.copy(s, os.path.join(cdir, 'seed-' + os.path.basename(s)))
        e = dict(env)
        e['RSV_PROP'] = prop
        for k, v in st.get('env', {}).items():
            e[k] = str(v)
        art = os.path.join(scratch, 'art-%s-%d-' % (st['harness'], w))
        cmd = [exe, '-max_total_time=%d' % budget, '-max_len=%d' % par.get('max_len', 1200), '-seed=%d' % (seed * 1000 + w + 1),
               '-artifact_prefix=' + art, '-print_final_stats=1', '-timeout=30', '-rss_limit_mb=3000', '-len_control=50', cdir]
        lf = open(os.path.join(scratch, 'fuzz-%s-%d.log' % (st['harness'], w)), 'wb')
        procs.append((subprocess.Popen(cmd, stdout=lf, stderr=subprocess.STDOUT, env=e), lf, w, art))
    execs = 0
    failures = []
    for p, lf, w, art in procs:
        try:
            p.wait(timeout=budget * 2 + 120)
        except subprocess.TimeoutExpired:
            p.kill()
        lf.close()
        with open(os.path.join(scratch, 'fuzz-%s-%d.log' % (st['harness'], w)), 'rb') as fh:
            txt = fh.read().decode(errors='replace')
        m = re.search(r'stat::number_of_executed_units:\s*(\d+)', txt)
        if m:
            execs += int(m.group(1))
        else:
            mm = re.findall(r'#(\d+)\s', txt)
            if mm:
                execs += int(mm[-1])
        # only crash-* / leak-* artefacts count; slow-unit / timeout / oom are load noise
        for a in glob.glob(art + 'crash-*') + glob.glob(art + 'leak-*'):
            msg = ''
            mm = re.search(r'RSV-FAIL (.*)', txt)
            if mm:
                msg = mm.group(1)
            else:
                msg = rsvlib.sanitizer_digest(txt)
            failures.append(dict(prop=prop, replay=a, msg='libFuzzer: ' + msg[:1500], sample='', tag=tag))
    # what did the corpora contain?  evaluate them through the ordinary driver statistics
    allc = os.path.join(scratch, 'corpus-all-' + st['harness'])
    os.makedirs(allc, exist_ok=True)
    n = 0
    for c in cdirs:
        for f in os.listdir(c):
            shutil.copy(os.path.join(c, f), os.path.join(allc, '%d-%s' % (n, f)))
            n += 1
    tot = dict(nontrivial=0, distinct_nontrivial=0, discard=0)
    cls_sum, cls_cases, samples, rule = {}, {}, [], ''
    try:
        drv = rsvlib.build_check(st)
        sf = os.path.join(scratch, 'corpus-stats-%s.json' % st['harness'])
        e = dict(env)
        for k, v in st.get('env', {}).items():
            e[k] = str(v)
        run([drv, '--prop', prop, '--corpus', allc, '--stats', sf, '--fail-dir', scratch], stdout=subprocess.PIPE, stderr=subprocess.STDOUT,
            env=e, timeout=600)
        t2, cls_sum, cls_cases, known, samples, rule, fl = rsvlib.merge_stats([sf])
        tot.update(t2)
    except Exception as ex:  # statistics only
        log('[rsv] corpus statistics failed: %s' % ex)
    return dict(stage=st.get('name', st['harness'] + '(libFuzzer)'), engine='libFuzzer -> ' + st['harness'], evaluations=execs,
                passed=execs - len(failures), failed=len(failures), discard=tot.get('discard', 0), inconclusive=0, timeouts=0, crashes=len(failures),
                nontrivial=tot.get('nontrivial', 0), distinct_nontrivial=tot.get('distinct_nontrivial', 0), known={},
                classes_total=cls_sum, classes_cases=cls_cases, samples=samples,
                rule='coverage-guided byte-level fuzzing of the same tape decoder; the counts of non-trivial cases describe the final corpus (%d inputs), '
                     'not every execution; ' % n + rule,
                wall_s=round(time.time() - t0, 2), workers=workers, min_nontrivial=0, corpus_inputs=n, failures=failures)
