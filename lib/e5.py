"""E5: real-MPI transfer stage (thorough tier of C02).  hx/e5_main.c linked with the core of /repo's working tree built the
way the pinned tests build it (mpicc -O2 -DNDEBUG, no hooks), run as real processes under mpiexec with real OpenMPI.
A case is (model seed, ranks, threads per rank); the oracle is the same end-state equality with the reference executor
that E4 uses.  The model is derived from the seed by a fixed splitmix stream, so a case is replayed by its three numbers
(`bin/rsv check C02 --replay <file.e5>`); nothing is shrunk here - failures of this stage are reduced with E4, which
owns the schedule.  A run that does not finish in time is inconclusive (the OS owns the schedule; and the listed
cross-rank shutdown finding of C08 can stall a real run too), an mpiexec infrastructure error is inconclusive as well."""
import json
import os
import signal
import subprocess
import time
from concurrent.futures import ThreadPoolExecutor

import rsvlib
from rsvlib import VERIF, REPO, BUILD_ROOT, log, run, sha_tree, BuildError

LAYOUTS = [(2, 2), (3, 1), (2, 1), (4, 2), (2, 4), (3, 2), (4, 1)]
MPI_ENV = {'OMPI_ALLOW_RUN_AS_ROOT': '1', 'OMPI_ALLOW_RUN_AS_ROOT_CONFIRM': '1', 'OMPI_MCA_rmaps_base_oversubscribe': '1',
           'OMPI_MCA_btl': 'self,vader', 'OMPI_MCA_mpi_yield_when_idle': '1'}


def build_e5():
    key = sha_tree([os.path.join(REPO, 'src'), os.path.join(VERIF, 'hx')], extra='e5')
    bdir = os.path.join(BUILD_ROOT, key)
    os.makedirs(bdir, exist_ok=True)
    os.utime(bdir)
    exe = os.path.join(bdir, 'e5')
    if os.path.exists(exe):
        return exe
    srcs = [os.path.join(REPO, 'src', s) for s in rsvlib.CORE_SRCS + ['distributed/mpi.c']]
    srcs += [os.path.join(VERIF, 'hx', f) for f in ('gm_model.c', 'gm_model_ref.c', 'refexec.c', 'e5_main.c')]
    cmd = ['mpicc', '-std=gnu11', '-O2', '-g', '-DNDEBUG', '-DROOTSIM_VERSION="e5"', '-I' + os.path.join(REPO, 'src'),
           '-I' + os.path.join(VERIF, 'hx')] + srcs + ['-o', exe + '.tmp', '-lm', '-lpthread']
    r = run(cmd, stdout=subprocess.PIPE, stderr=subprocess.STDOUT)
    if r.returncode:
        raise BuildError(' '.join(cmd) + '\n' + r.stdout.decode(errors='replace'))
    os.rename(exe + '.tmp', exe)
    return exe


def run_case(exe, seed, ranks, threads, timeout):
    e = dict(os.environ)
    e.update(MPI_ENV)
    cmd = ['mpiexec', '--allow-run-as-root', '--oversubscribe', '-n', str(ranks), exe, str(seed), str(threads)]
    p = subprocess.Popen(cmd, stdout=subprocess.PIPE, stderr=subprocess.STDOUT, env=e, start_new_session=True)
    try:
        out = p.communicate(timeout=timeout)[0].decode(errors='replace')
        rc = p.returncode
    except subprocess.TimeoutExpired:
        try:
            os.killpg(p.pid, signal.SIGKILL)  # mpiexec and its ranks share the session / process group
        except OSError:
            pass
        out = p.communicate()[0].decode(errors='replace')
        rc = 'timeout'
    if rc == 0 and out.count('E5-RANK') == ranks and 'MISMATCH' not in out:
        v = 'DISCARD' if 'invalid model' in out else 'PASS'
    elif 'E5-FAIL' in out:
        v = 'FAIL'
    else:
        v = 'INCONCLUSIVE'
    return v, out, rc


def replay_file(path):
    with open(path) as fh:
        seed, ranks, threads = [int(x) for x in fh.read().split()[:3]]
    exe = build_e5()
    v, out, rc = run_case(exe, seed, ranks, threads, 300)
    return v, out


def run_e5_stage(prop, st, par, seed, jobs, scratch, env):
    t0 = time.time()
    exe = build_e5()
    n = par.get('cases', 60)
    budget = par.get('time_budget', 600)
    cases = []
    for i in range(n):
        ranks, threads = LAYOUTS[i % len(LAYOUTS)]
        cases.append(((seed * 7919 + i * 104729 + 13) & 0x7fffffff, ranks, threads))
    res = []

    def one(c):
        if time.time() - t0 > budget:
            return c, 'SKIP', '', 0
        v, out, rc = run_case(exe, c[0], c[1], c[2], par.get('case_timeout', 240))
        return c, v, out, rc

    with ThreadPoolExecutor(max_workers=max(1, jobs // 6)) as ex:
        res = list(ex.map(one, cases))
    failures, samples = [], []
    tot = dict(PASS=0, FAIL=0, INCONCLUSIVE=0, DISCARD=0, SKIP=0)
    nontriv, fps = 0, set()
    for c, v, out, rc in res:
        tot[v] += 1
        if v == 'PASS':
            lines = [l for l in out.splitlines() if l.startswith('E5-RANK')]
            hosted = [int(l.split('hosted=')[1].split()[0]) for l in lines]
            ev = int(lines[0].split('ref_events=')[1].split()[0])
            if min(hosted) >= 1 and ev >= 200:
                nontriv += 1
                fps.add(c)
                if len(samples) < 4:
                    samples.append('seed %d on %d ranks x %d threads: %s' % (c[0], c[1], c[2], lines[0]))
        elif v == 'FAIL':
            p = os.path.join(scratch, 'e5-%d-%dx%d.e5' % c)
            with open(p, 'w') as fh:
                fh.write('%d %d %d\n' % c)
            msg = ' | '.join(l for l in out.splitlines() if l.startswith('E5-FAIL'))[:1200]
            failures.append(dict(prop=prop, replay=p, msg='real MPI run: ' + msg, sample='seed %d, %d ranks x %d threads' % c,
                                 tag=rsvlib.stage_tag(st)))
        elif v == 'INCONCLUSIVE':
            log('[rsv] e5 case %s inconclusive (rc=%s): %s' % (c, rc, out[-400:].replace('\n', ' | ')))
    return dict(stage=st.get('name', 'e5'), engine='mpiexec + OpenMPI -> e5_main (seeded model family, reference executor)',
                evaluations=len(res) - tot['SKIP'], passed=tot['PASS'], failed=tot['FAIL'], discard=tot['DISCARD'],
                inconclusive=tot['INCONCLUSIVE'], timeouts=0, crashes=0, nontrivial=nontriv, distinct_nontrivial=len(fps), known={},
                classes_total={}, classes_cases={}, samples=samples,
                rule='non-trivial = the run finished, every rank hosted at least one LP and the sequential execution has >= 200 events',
                wall_s=round(time.time() - t0, 2), workers=max(1, jobs // 6), min_nontrivial=par.get('min_nontrivial', 0), failures=failures)
