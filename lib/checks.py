"""Table of checks: property -> stages (harness, build variant, campaign sizes per tier)."""

RT = ['rsv_rt.c']
MICRO = ('h_order', 'h_numeric', 'h_topology', 'h_partition', 'h_alloc', 'h_heap')


def stage(harness, hx, name=None, variant='core', exclude=(), quick=None, thorough=None, common=None, **kw):
    d = dict(harness=harness, hx=list(hx) + RT, name=name or harness, variant=variant, exclude=list(exclude),
             quick=quick or {}, thorough=thorough or {}, common=common or {})
    if harness in MICRO:
        # in-process component harnesses: a case takes microseconds, so a case that does not return is a hang
        d['hang_is_failure'] = True
        d['replay_case_timeout'] = 30
        d['common'].setdefault('case_timeout', 30)
    d.update(kw)
    return d


CHECKS = {}

CHECKS['C16'] = dict(
    stages=[
        stage('h_order', ['h_order.c'],
              quick=dict(cases=160000, min_nontrivial=2000, time_budget=120),
              thorough=dict(cases=3200000, min_nontrivial=20000, time_budget=900)),
    ],
    assumptions=[
        'events are compared through the tree\'s own msg_is_before macro, heap.h and msg_queue.c, compiled from /repo',
        'timestamps are non-negative finite doubles (NaN is outside the API contract)',
    ])

CHECKS['C18'] = dict(
    stages=[
        stage('h_numeric', ['h_numeric.c'],
              quick=dict(cases=400000, min_nontrivial=5000, time_budget=120),
              thorough=dict(cases=8000000, min_nontrivial=50000, time_budget=900)),
    ],
    assumptions=[
        'argument domains are those of the repository\'s own callers and tests: RandomRange min<=max with max-min+1 representable; '
        'RandomRangeNonUniform 0<=min<=max<INT_MAX, 0<=x<INT_MAX; Gamma ia 0..50; Zipf skew in (1,10], limit>=1',
        'the all-zero xoshiro state is excluded (documented invalid state of the generator family)',
    ])

CHECKS['C19'] = dict(
    stages=[
        stage('h_topology', ['h_topology.c'],
              quick=dict(cases=24000, min_nontrivial=2000, time_budget=120),
              thorough=dict(cases=480000, min_nontrivial=20000, time_budget=1200)),
    ],
    assumptions=[
        'source regions are inside the topology; graph link probabilities are in [0,1]',
        'concurrency is explored with 4 real threads (x86-TSO interleavings only), each using its own LP context',
    ])

CHECKS['C14'] = dict(
    stages=[
        stage('h_partition', ['h_partition.c'], exclude=['lp/lp.c'],
              quick=dict(cases=48000, min_nontrivial=2000, time_budget=120),
              thorough=dict(cases=960000, min_nontrivial=20000, time_budget=900)),
    ],
    assumptions=[
        'lp.c is compiled from /repo with its per-LP construction callees replaced by recording stubs; the partition '
        'arithmetic, range variables and routing macros are the real ones',
        'ranks <= 64 and threads <= 64 per rank; LPs <= 2^21',
    ])

_alloc_assume = [
    'the LP context is a mock (one LP); multi.c, buddy.c, ckpt.c and random.c are the real ones from /repo',
    'rollback targets and checkpoint/fossil positions are event-end positions, as produced by lp/process.c and gvt/fossil.c',
    'allocations re-issued while coasting forward may return other addresses than originally (not demanded equal)',
]
for _p, _q, _t in (('C12', 24000, 480000), ('C05', 24000, 480000), ('C13', 24000, 480000)):
    CHECKS[_p] = dict(
        stages=[
            stage('h_alloc', ['h_alloc.c'], name='h_alloc(64KiB arenas)',
                  quick=dict(cases=_q, min_nontrivial=300, time_budget=150),
                  thorough=dict(cases=_t, min_nontrivial=3000, time_budget=1200)),
            stage('h_alloc', ['h_alloc.c'], name='h_alloc(256B arenas)', variant='core_small',
                  quick=dict(cases=_q, min_nontrivial=300, time_budget=150),
                  thorough=dict(cases=_t, min_nontrivial=3000, time_budget=1200)),
        ],
        assumptions=_alloc_assume)

_RT_HX = ['h_runtime.c', 'rt_oracles.c', 'gm_model.c', 'gm_model_ref.c', 'refexec.c']
_rt_assume = [
    'models are generated inside the API contract of ROOT-Sim.h (validated by the reference executor; breaches are generator bugs, never violations)',
    'DET explores sequentially consistent interleavings at the hook sites only; FREE adds real x86-TSO interleavings',
    'the reference executor uses the tree\'s own msg_is_before (direction of the tie-break is the runtime\'s) and random.c (judged by C18)',
    'a run that exhausts the step budget while still producing trace events is inconclusive, not a violation',
]


def _rt(prop, quick_cases, thorough_cases, minnt, free=True, extra_quick=None):
    st = [stage('h_runtime', _RT_HX, name='h_runtime(DET)', quick=dict(cases=quick_cases, min_nontrivial=minnt, time_budget=100, case_timeout=60),
                thorough=dict(cases=thorough_cases, min_nontrivial=minnt * 10, time_budget=1500, case_timeout=300), env=dict(RSV_FREE=0))]
    if free:
        st.append(stage('h_runtime', _RT_HX, name='h_runtime(FREE)', deterministic=False,
                        quick=dict(cases=max(200, quick_cases // 10), min_nontrivial=0, time_budget=45, case_timeout=60, workers=8),
                        thorough=dict(cases=max(2000, thorough_cases // 8), min_nontrivial=0, time_budget=900, case_timeout=120, workers=8),
                        env=dict(RSV_FREE=1), tag_suffix='+free'))
    return st


for _p, _q, _t, _m in (('C01', 5000, 120000, 300), ('C07', 5000, 120000, 300), ('C08', 4000, 120000, 300), ('C09', 4000, 120000, 300),
                       ('C03', 4000, 120000, 100), ('C04', 4000, 120000, 300), ('C06', 4000, 120000, 300)):
    CHECKS[_p] = dict(stages=_rt(_p, _q, _t, _m), assumptions=_rt_assume)
CHECKS['C10'] = dict(stages=_rt('C10', 12000, 240000, 300, free=False), assumptions=_rt_assume)
CHECKS['C20'] = dict(stages=_rt('C20', 5000, 120000, 300), assumptions=_rt_assume + [
    'the statistics file is read by an independent reader written from the layout tables in the documentation of log/stats.c',
    'runs stopped by RootsimStop may differ by one record between threads (stats.c: equal counts hold in a correctly completed simulation)',
    'multi-rank files: node records are matched to ranks by position (rank 0 first, then in the order stats_files_receive() collects them); '
    'equal record counts are demanded per node and its threads, not across nodes'])
CHECKS['C05']['stages'].append(_rt('C05', 4000, 80000, 100, free=False)[0])
# C13 in vivo: entries released by fossil collection are strictly below the GVT, and a rollback on an LP that has been
# fossil-collected restores the exact state (rollback digest, which includes the generator state)
CHECKS['C13']['stages'].append(_rt('C13', 4000, 80000, 100, free=False)[0])
CHECKS['C14']['stages'].append(_rt('C14', 2000, 40000, 100, free=False)[0])


_sync_assume = ['DET explores sequentially consistent interleavings at the hook sites (before the read-modify-write, inside both spin loops, '
                'between load and compare-and-swap, before the buffer swap); FREE adds real x86-TSO interleavings on 16 cores',
                'reorderings allowed by the C11 model for relaxed operations but not by x86 are out of reach']
CHECKS['C17'] = dict(stages=[
    stage('h_barrier', ['h_barrier.c'], name='h_barrier(DET)', quick=dict(cases=20000, min_nontrivial=1000, time_budget=120, case_timeout=60),
          thorough=dict(cases=400000, min_nontrivial=10000, time_budget=900, case_timeout=60), env=dict(RSV_FREE=0)),
    stage('h_barrier', ['h_barrier.c'], name='h_barrier(FREE)', deterministic=False,
          quick=dict(cases=600, min_nontrivial=0, time_budget=100, case_timeout=60, workers=4, env=dict(RSV_QUICK=1)),
          thorough=dict(cases=8000, min_nontrivial=0, time_budget=900, case_timeout=120, workers=4), env=dict(RSV_FREE=1), tag_suffix='+free'),
], assumptions=_sync_assume)
CHECKS['C15'] = dict(stages=[
    stage('h_queue', ['h_queue.c'], name='h_queue(DET)', quick=dict(cases=20000, min_nontrivial=1000, time_budget=120, case_timeout=60),
          thorough=dict(cases=400000, min_nontrivial=10000, time_budget=900, case_timeout=60), env=dict(RSV_FREE=0)),
    stage('h_queue', ['h_queue.c'], name='h_queue(FREE)', deterministic=False,
          quick=dict(cases=2000, min_nontrivial=0, time_budget=100, case_timeout=60, workers=4),
          thorough=dict(cases=40000, min_nontrivial=0, time_budget=900, case_timeout=120, workers=4), env=dict(RSV_FREE=1), tag_suffix='+free'),
], assumptions=_sync_assume)


# ---- E4: several MPI ranks in one process (renamed copies of the core + in-process MPI) ---------------------------------
from rsvlib import make_rank_copies  # noqa: E402

_E4_HX = ['h_runtime.c', 'rt_oracles.c', 'gm_model.c', 'gm_model_ref.c', 'refexec.c', 'e4_api.c', 'fakempi/fakempi.c']
_e4_assume = _rt_assume + [
    'the MPI library is replaced by an in-process one (hx/fakempi): eager copy at send time, FIFO per (sender thread, destination), '
    'generated delivery delays, generated service order between sender threads, generated completion delay of the non-blocking collectives',
    'ranks are renamed copies (objcopy --redefine-syms) of the objects compiled from /repo; 1..4 ranks x 1..3 threads',
]


def _e4(prop, quick_cases, thorough_cases, minnt):
    return stage('h_mpi', _E4_HX, name='h_mpi(DET, 1..4 ranks)', variant='core_mpi', postprocess=make_rank_copies,
                 cflags=['-DRSV_E4', '-DGM_E4'], file_cflags={'refexec.c': ['-include', 'e4_refmap.h']},
                 quick=dict(cases=quick_cases, min_nontrivial=minnt, time_budget=90, case_timeout=90),
                 thorough=dict(cases=thorough_cases, min_nontrivial=minnt * 10, time_budget=1800, case_timeout=300),
                 env=dict(RSV_FREE=0), tag_suffix='')


CHECKS['C02'] = dict(stages=[_e4('C02', 4000, 100000, 200)], assumptions=_e4_assume)

for _p in ('C03', 'C04', 'C06', 'C08', 'C09', 'C20', 'C05', 'C07', 'C14'):
    CHECKS[_p]['stages'].append(_e4(_p, 1600 if _p != 'C14' else 800, 50000 if _p != 'C14' else 20000, 50))
    CHECKS[_p]['assumptions'] = CHECKS[_p].get('assumptions', []) + [a for a in _e4_assume if a not in CHECKS[_p].get('assumptions', [])]
# C04: the window in which an unaccounted message escapes the reduction is widest across ranks (slow collectives, messages in
# MPI flight); the seeded change C04-gvt-ignores-extracted-anti-messages is found by ~3 of 4 campaigns of 1500 cases, so this
# stage gets twice the budget of the others
CHECKS['C04']['stages'][-1]['quick'].update(cases=3600, time_budget=170)
CHECKS['C04']['stages'][0]['quick'].update(cases=3000, time_budget=80)


# C11: memory safety / UB rides on every engine (all harness builds are ASan+UBSan with asserts on).  Its own check runs
# the engines with only the crash / sanitizer / assertion oracle armed (semantic oracles of other properties are counted).
CHECKS['C11'] = dict(stages=_rt('C11', 3000, 100000, 300) + [
    _e4('C11', 1200, 40000, 50),
    stage('h_alloc', ['h_alloc.c'], name='h_alloc(64KiB arenas)', quick=dict(cases=16000, min_nontrivial=100, time_budget=100),
          thorough=dict(cases=320000, min_nontrivial=1000, time_budget=900)),
    stage('h_numeric', ['h_numeric.c'], quick=dict(cases=200000, min_nontrivial=1000, time_budget=100),
          thorough=dict(cases=4000000, min_nontrivial=10000, time_budget=900)),
    stage('h_order', ['h_order.c'], quick=dict(cases=80000, min_nontrivial=1000, time_budget=100),
          thorough=dict(cases=1600000, min_nontrivial=10000, time_budget=900)),
], assumptions=_e4_assume + ['a sanitizer report, failed assertion or fatal signal inside the runtime on a valid model is the violation; '
                             'LeakSanitizer is not used as an oracle'])


# ---- E2: libFuzzer campaigns (thorough tier only) on the in-process component harnesses ------------------------------------
def _fz(harness, hx, variant='core', exclude=(), budget=240, max_len=1200):
    return stage(harness, hx, name=harness + '(libFuzzer)' + ('' if variant == 'core' else '@' + variant), variant=variant, exclude=exclude,
                 engine='libfuzzer', thorough_only=True, thorough=dict(time_budget=budget, workers=8, max_len=max_len), tag_suffix='')


for _p in ('C05', 'C12', 'C13'):
    CHECKS[_p]['stages'].append(_fz('h_alloc', ['h_alloc.c']))
    CHECKS[_p]['stages'].append(_fz('h_alloc', ['h_alloc.c'], variant='core_small'))
CHECKS['C16']['stages'].append(_fz('h_order', ['h_order.c'], max_len=500))
CHECKS['C18']['stages'].append(_fz('h_numeric', ['h_numeric.c'], max_len=100))
CHECKS['C14']['stages'].append(_fz('h_partition', ['h_partition.c'], exclude=['lp/lp.c'], max_len=60))
CHECKS['C11']['stages'].append(_fz('h_alloc', ['h_alloc.c']))
CHECKS['C11']['stages'].append(_fz('h_numeric', ['h_numeric.c'], max_len=100))


# ---- NDEBUG layout (the configuration the pinned tests are built with): smaller struct lp_msg, no assertions ----------------
def _rt_nd(prop, q, t):
    return stage('h_runtime', _RT_HX, name='h_runtime(DET, -DNDEBUG)', variant='core_ndebug',
                 quick=dict(cases=q, min_nontrivial=50, time_budget=60, case_timeout=60),
                 thorough=dict(cases=t, min_nontrivial=500, time_budget=900, case_timeout=300), env=dict(RSV_FREE=0))


def _e4_nd(prop, q, t):
    st = _e4(prop, q, t, 20)
    st['variant'] = 'core_mpi_ndebug'
    st['name'] = 'h_mpi(DET, 1..4 ranks, -DNDEBUG)'
    return st


for _p in ('C01', 'C06', 'C11', 'C03'):
    CHECKS[_p]['stages'].append(_rt_nd(_p, 1000, 30000))


# atomic-step variant (hx/tsan_hooks.c): every atomic operation of the core is a scheduling point, so a context switch can fall
# between two atomic operations where the core has no hook (a read-modify-write split into load + store, two flag updates swapped)
def _rt_atomic(prop, q, t):
    return stage('h_runtime', _RT_HX + ['tsan_hooks.c'], name='h_runtime(DET, atomic steps)', variant='core_atomics',
                 quick=dict(cases=q, min_nontrivial=50, time_budget=70, case_timeout=60),
                 thorough=dict(cases=t, min_nontrivial=500, time_budget=900, case_timeout=300),
                 env=dict(RSV_FREE=0, RSV_ATOMIC_STEPS=1))


for _p in ('C06', 'C01', 'C04', 'C08'):
    CHECKS[_p]['stages'].append(_rt_atomic(_p, 1500, 40000))


def _e4_atomic(prop, q, t):
    st = _e4(prop, q, t, 20)
    st['variant'] = 'core_mpi_atomics'
    st['name'] = 'h_mpi(DET, 1..4 ranks, atomic steps)'
    st['hx'] = st['hx'] + ['tsan_hooks.c']
    st['env'] = dict(st.get('env', {}), RSV_ATOMIC_STEPS=1)
    st['quick'] = dict(st['quick'], time_budget=70)
    return st


for _p in ('C02', 'C06'):
    CHECKS[_p]['stages'].append(_e4_atomic(_p, 700, 20000))
CHECKS['C15']['stages'].append(stage('h_queue', ['h_queue.c', 'tsan_hooks.c'], name='h_queue(DET, atomic steps)', variant='core_atomics',
                                     quick=dict(cases=8000, min_nontrivial=500, time_budget=60, case_timeout=60),
                                     thorough=dict(cases=160000, min_nontrivial=5000, time_budget=600, case_timeout=60),
                                     env=dict(RSV_FREE=0, RSV_ATOMIC_STEPS=1)))
CHECKS['C17']['stages'].append(stage('h_barrier', ['h_barrier.c', 'tsan_hooks.c'], name='h_barrier(DET, atomic steps)', variant='core_atomics',
                                     quick=dict(cases=8000, min_nontrivial=500, time_budget=60, case_timeout=60),
                                     thorough=dict(cases=160000, min_nontrivial=5000, time_budget=600, case_timeout=60),
                                     env=dict(RSV_FREE=0, RSV_ATOMIC_STEPS=1)))
for _p in ('C02', 'C06', 'C11'):
    CHECKS[_p]['stages'].append(_e4_nd(_p, 800, 24000))


# E5: real processes, real OpenMPI (thorough tier of C02 only; see lib/e5.py)
CHECKS['C02']['stages'].append(stage('e5', [], name='e5(mpiexec, real OpenMPI, -O2 -DNDEBUG)', engine='mpiexec', thorough_only=True,
                                     deterministic=False, thorough=dict(cases=84, time_budget=900, case_timeout=240, min_nontrivial=20)))


# thorough tier: wider bounds of the runtime campaign (up to 40 LPs, 12 threads, goals up to ~650 events)
for _p, _spec in CHECKS.items():
    for _st in _spec['stages']:
        if _st['harness'] in ('h_runtime', 'h_mpi'):
            _st['thorough'].setdefault('env', {})
            _st['thorough']['env']['RSV_DEEP'] = 1
