import fcntl
import glob
import hashlib
import json
import os
import shutil
import struct
import subprocess
import sys
import time

VERIF = os.path.abspath(os.path.join(os.path.dirname(os.path.abspath(__file__)), '..'))
REPO = os.environ.get('RSV_REPO', '/repo')
BUILD_ROOT = os.environ.get('RSV_BUILD_ROOT', '/var/tmp/rsv-build')
DRV_BUILD = os.path.join(VERIF, 'build')

CORE_SRCS = """arch/io.c arch/mem.c arch/thread.c core/core.c init.c core/sync.c datatypes/msg_queue.c
distributed/control_msg.c gvt/fossil.c gvt/gvt.c gvt/termination.c lib/random/random.c lib/random/xxtea.c
lib/topology/topology.c log/file.c log/log.c log/stats.c lp/lp.c lp/process.c mm/auto_ckpt.c mm/buddy/buddy.c
mm/buddy/ckpt.c mm/buddy/multi.c mm/msg_allocator.c parallel/parallel.c serial/serial.c""".split()

SAN = ['-g', '-O1', '-fsanitize=address,undefined', '-fno-sanitize-recover=undefined', '-fno-omit-frame-pointer']
CSTD = ['-std=gnu11']
GUARD = ['-DROOT_SIM_CORE_VERIF', '-DROOTSIM_VERSION="verif"']

VARIANTS = {
    # name: (extra cflags, mpi source, extra include dirs)
    'core': ([], 'distributed/no_mpi.c', []),
    'core_small': (['-DRSV_B_TOTAL_EXP=8U', '-DRSV_B_BLOCK_EXP=4U'], 'distributed/no_mpi.c', []),
    'core_mpi': ([], 'distributed/mpi.c', [os.path.join(VERIF, 'hx', 'fakempi')]),
    # the pinned test build is -DNDEBUG: struct lp_msg is smaller there (no sender fields) and asserts are off
    'core_ndebug': (['-DNDEBUG'], 'distributed/no_mpi.c', []),
    'core_mpi_ndebug': (['-DNDEBUG'], 'distributed/mpi.c', [os.path.join(VERIF, 'hx', 'fakempi')]),
    # atomic-step variant: ThreadSanitizer *instrumentation* of the atomics only, no ThreadSanitizer runtime - the calls land in
    # hx/tsan_hooks.c, which makes every atomic operation of the core a scheduling point (AddressSanitizer cannot be combined)
    'core_atomics': ([], 'distributed/no_mpi.c', []),
    'core_mpi_atomics': ([], 'distributed/mpi.c', [os.path.join(VERIF, 'hx', 'fakempi')]),
}
ATOMIC_VARIANTS = ('core_atomics', 'core_mpi_atomics')
TSAN_CF = ['-fsanitize=thread', '-mllvm', '-tsan-instrument-memory-accesses=0', '-mllvm', '-tsan-instrument-func-entry-exit=0',
           '-mllvm', '-tsan-instrument-memintrinsics=0']
SAN_OF = {v: ['-g', '-O1', '-fsanitize=undefined', '-fno-sanitize-recover=undefined', '-fno-omit-frame-pointer'] for v in ATOMIC_VARIANTS}
LINK_SAN_OF = {v: ['-fsanitize=undefined'] for v in ATOMIC_VARIANTS}


def log(*a):
    print(*a, file=sys.stderr, flush=True)


def run(cmd, **kw):
    return subprocess.run(cmd, **kw)


def sha_tree(paths, extra=''):
    h = hashlib.sha256()
    h.update(extra.encode())
    for root in paths:
        if os.path.isfile(root):
            files = [root]
        else:
            files = []
            for d, dn, fn in os.walk(root):
                dn.sort()
                if '/.git' in d or d.endswith('/_build'):
                    continue
                for f in sorted(fn):
                    if f.endswith(('.c', '.h', '.cpp', '.hpp', '.py', '.txt', '.json')):
                        files.append(os.path.join(d, f))
        for f in sorted(files):
            h.update(f.encode())
            try:
                with open(f, 'rb') as fh:
                    h.update(fh.read())
            except OSError:
                h.update(b'<unreadable>')
    return h.hexdigest()[:24]


class BuildError(Exception):
    pass


E4_RANKS = 4


def make_rank_copies(spec, bdir, core_objs, hobjs):
    """E4: every rank is a copy of the core's objects with all defined global symbols prefixed by r<k>_."""
    odir = os.path.join(bdir, 'ranks')
    os.makedirs(odir, exist_ok=True)
    r = run(['nm', '-g', '--defined-only'] + core_objs, stdout=subprocess.PIPE, stderr=subprocess.STDOUT)
    if r.returncode:
        raise BuildError(r.stdout.decode(errors='replace'))
    syms = set()
    for line in r.stdout.decode().splitlines():
        parts = line.split()
        if len(parts) == 3:
            syms.add(parts[2])
    out = []
    jobs = []
    for k in range(E4_RANKS):
        mp = os.path.join(odir, 'map%d' % k)
        with open(mp, 'w') as f:
            for sname in sorted(syms):
                f.write('%s r%d_%s\n' % (sname, k, sname))
        for o in core_objs:
            dst = os.path.join(odir, 'r%d_%s' % (k, os.path.basename(o)))
            out.append(dst)
            if not os.path.exists(dst):
                jobs.append((['objcopy', '--redefine-syms=' + mp, o, dst + '.tmp'], dst))
    if jobs:
        parallel_compile(jobs)
        for _, o in jobs:
            os.rename(o + '.tmp', o)
    return out, hobjs


def parallel_compile(jobs):
    """jobs: list of (cmd, out). Runs up to ncpu at once. Raises BuildError with compiler output."""
    ncpu = int(os.environ.get('VERIF_JOBS', '16'))
    pending = list(jobs)
    running = []
    errors = []
    while pending or running:
        while pending and len(running) < ncpu:
            cmd, out = pending.pop(0)
            p = subprocess.Popen(cmd, stdout=subprocess.PIPE, stderr=subprocess.STDOUT)
            running.append((p, cmd, out))
        p, cmd, out = running.pop(0)
        o, _ = p.communicate()
        if p.returncode != 0:
            errors.append(' '.join(cmd) + '\n' + o.decode(errors='replace'))
    if errors:
        raise BuildError('\n'.join(errors))


def prune_build_root(keep):
    try:
        ents = [os.path.join(BUILD_ROOT, e) for e in os.listdir(BUILD_ROOT)
                if os.path.isdir(os.path.join(BUILD_ROOT, e)) and len(e) == 24 and all(ch in '0123456789abcdef' for ch in e)]
    except OSError:
        return
    ents.sort(key=lambda p: os.path.getmtime(p), reverse=True)
    kept = 0
    now = time.time()
    for e in ents:
        if os.path.basename(e) == keep:
            continue
        kept += 1
        # keep a few recent trees (a concurrent check may be running from one of them); never touch young ones
        if kept >= 8 and now - os.path.getmtime(e) > 2 * 3600:
            shutil.rmtree(e, ignore_errors=True)
        elif kept >= 40:
            shutil.rmtree(e, ignore_errors=True)


def ensure_driver():
    os.makedirs(DRV_BUILD, exist_ok=True)
    src = os.path.join(VERIF, 'drv', 'driver.cpp')
    key = sha_tree([src, os.path.join(VERIF, 'hx', 'rsv_case.h')])
    obj = os.path.join(DRV_BUILD, 'driver-%s.o' % key)
    if os.path.exists(obj):
        return obj
    with open(os.path.join(DRV_BUILD, '.lock'), 'w') as lk:
        fcntl.flock(lk, fcntl.LOCK_EX)
        if os.path.exists(obj):
            return obj
        log('[rsv] building rapidcheck driver (once)')
        for old in glob.glob(os.path.join(DRV_BUILD, 'driver-*.o')):
            os.unlink(old)
        tmp = obj + '.tmp%d' % os.getpid()
        r = run(['g++', '-std=gnu++17', '-O2', '-g', '-c', src, '-o', tmp], stdout=subprocess.PIPE, stderr=subprocess.STDOUT)
        if r.returncode != 0:
            raise BuildError(r.stdout.decode(errors='replace'))
        os.rename(tmp, obj)
    return obj


def build_variant(variant, bdir):
    """Compile the core of /repo's working tree for a variant into bdir/<variant>/ ; returns {src: obj}."""
    extra, mpi_src, incs = VARIANTS[variant]
    odir = os.path.join(bdir, variant)
    os.makedirs(odir, exist_ok=True)
    objs = {}
    jobs = []
    for s in CORE_SRCS + [mpi_src]:
        o = os.path.join(odir, s.replace('/', '_')[:-2] + '.o')
        objs[s] = o
        if not os.path.exists(o):
            san = SAN_OF.get(variant, SAN) + (TSAN_CF if variant in ATOMIC_VARIANTS else [])
            cmd = ['clang'] + CSTD + san + GUARD + extra + ['-I' + i for i in incs] + ['-I' + os.path.join(REPO, 'src'), '-c',
                                                                                     os.path.join(REPO, 'src', s), '-o', o + '.tmp']
            jobs.append((cmd, o))
    if jobs:
        parallel_compile(jobs)
        for _, o in jobs:
            os.rename(o + '.tmp', o)
    return objs


def build_check(spec):
    """Build the harness executable of a check; returns path. Raises BuildError."""
    variant = spec.get('variant', 'core')
    hx_files = spec['hx']
    key = sha_tree([os.path.join(REPO, 'src'), os.path.join(VERIF, 'hx'), os.path.join(VERIF, 'drv')],
                   extra=json.dumps([SAN_OF.get(variant, SAN), GUARD, VARIANTS[variant][0], variant in ATOMIC_VARIANTS]))
    os.makedirs(BUILD_ROOT, exist_ok=True)
    bdir = os.path.join(BUILD_ROOT, key)
    os.makedirs(bdir, exist_ok=True)
    os.utime(bdir)
    exe = os.path.join(bdir, 'bin-%s-%s' % (spec['harness'], variant))
    with open(os.path.join(BUILD_ROOT, '.lock'), 'w') as lk:
        fcntl.flock(lk, fcntl.LOCK_EX)
        prune_build_root(key)
        if os.path.exists(exe):
            return exe
        t0 = time.time()
        drv = ensure_driver()
        objs = build_variant(variant, bdir)
        extra, _, incs = VARIANTS[variant]
        hdir = os.path.join(bdir, 'hx-' + variant)
        os.makedirs(hdir, exist_ok=True)
        jobs = []
        hobjs = []
        for f in hx_files:
            o = os.path.join(hdir, f.replace('/', '_')[:-2] + '.o')
            hobjs.append(o)
            if not os.path.exists(o):
                cmd = ['clang'] + CSTD + SAN_OF.get(variant, SAN) + GUARD + extra + spec.get('cflags', []) + spec.get('file_cflags', {}).get(f, []) + \
                      ['-Wall', '-Wno-unused-function'] + \
                      ['-I' + i for i in incs] + ['-I' + os.path.join(REPO, 'src'), '-I' + os.path.join(VERIF, 'hx'), '-c',
                                                   os.path.join(VERIF, 'hx', f), '-o', o + '.tmp']
                jobs.append((cmd, o))
        if jobs:
            parallel_compile(jobs)
            for _, o in jobs:
                os.rename(o + '.tmp', o)
        excl = set(spec.get('exclude', []))
        core_objs = [o for s, o in objs.items() if s not in excl]
        post = spec.get('postprocess')
        if post:
            core_objs, hobjs = post(spec, bdir, core_objs, hobjs)
        cmd = ['clang++'] + LINK_SAN_OF.get(variant, ['-fsanitize=address,undefined']) + ['-o', exe + '.tmp', drv] + hobjs + core_objs + \
              ['-lrapidcheck', '-lm', '-lpthread']
        r = run(cmd, stdout=subprocess.PIPE, stderr=subprocess.STDOUT)
        if r.returncode != 0:
            raise BuildError(' '.join(cmd) + '\n' + r.stdout.decode(errors='replace'))
        os.rename(exe + '.tmp', exe)
        log('[rsv] built %s (%s) in %.1fs' % (spec['harness'], variant, time.time() - t0))
    return exe


CHILD_ENV = {
    'ASAN_OPTIONS': 'detect_leaks=0:abort_on_error=0:exitcode=99:allocator_may_return_null=1:detect_stack_use_after_return=0',
    'UBSAN_OPTIONS': 'print_stacktrace=1:halt_on_error=1',
}


def load_known():
    p = os.path.join(VERIF, 'known_findings.json')
    if not os.path.exists(p):
        return []
    with open(p) as f:
        return json.load(f).get('findings', [])


def stage_tag(st):
    return st['harness'] + ('' if st.get('variant', 'core') == 'core' else '@' + st['variant']) + st.get('tag_suffix', '')


def stage_env(env, st):
    e = dict(env)
    for k, v in st.get('env', {}).items():
        e[k] = str(v)
    return e


def replay_once(exe, prop, tape, env, timeout=300, case_timeout=120):
    try:
        r = run([exe, '--prop', prop, '--replay', tape, '--fail-dir', env['RSV_SCRATCH'], '--case-timeout', str(case_timeout)],
                stdout=subprocess.PIPE,
                stderr=subprocess.STDOUT, env=env, timeout=timeout)
    except subprocess.TimeoutExpired:
        return 'INCONCLUSIVE', 'replay timed out'
    out = r.stdout.decode(errors='replace')
    verdict = 'CRASH'
    for line in out.splitlines():
        if line.startswith('REPLAY verdict='):
            verdict = line.split('verdict=')[1].split()[0]
    return verdict, out


def failing(verdict, st):
    return verdict in ('FAIL', 'CRASH') or (verdict == 'TIMEOUT' and st.get('hang_is_failure', False))


def sanitizer_digest(text):
    """First sanitizer / assert / abort lines plus the top frames, instead of a raw tail."""
    lines = text.splitlines()
    keep = []
    for i, l in enumerate(lines):
        if ('runtime error:' in l or 'ERROR: AddressSanitizer' in l or 'Assertion' in l or 'SUMMARY:' in l
                or 'FATAL' in l or 'RSV hang' in l):
            keep.append(l.strip())
            for m in lines[i + 1:i + 7]:
                if m.strip().startswith('#'):
                    keep.append('  ' + m.strip()[:160])
        if len(keep) > 24:
            break
    if not keep:
        return text[-1500:]
    return '\n'.join(keep)[:2500]


def merge_stats(files):
    tot = dict(evaluations=0, pass_=0, fail=0, discard=0, inconclusive=0, timeouts=0, crashes=0, nontrivial=0,
               tape_bytes=0)
    cls_sum, cls_cases, known, samples = {}, {}, {}, []
    fps = set()
    rule = ''
    failures = []
    for f in files:
        try:
            with open(f) as fh:
                s = json.load(fh)
        except (OSError, ValueError):
            continue
        for k in ('evaluations', 'fail', 'discard', 'inconclusive', 'timeouts', 'crashes', 'nontrivial', 'tape_bytes'):
            tot[k] += s.get(k, 0)
        tot['pass_'] += s.get('pass', 0)
        for k, v in s.get('cls_sum', {}).items():
            cls_sum[k] = cls_sum.get(k, 0) + v
        for k, v in s.get('cls_cases', {}).items():
            cls_cases[k] = cls_cases.get(k, 0) + v
        for k, v in s.get('known', {}).items():
            known[k] = known.get(k, 0) + v
        for x in s.get('samples', []):
            if len(samples) < 6:
                samples.append(x)
        rule = s.get('rule', rule)
        if 'failure' in s:
            failures.append(s['failure'])
        try:
            with open(f + '.fps', 'rb') as fh:
                b = fh.read()
            fps.update(struct.unpack('<%dQ' % (len(b) // 8), b[:len(b) // 8 * 8]))
        except OSError:
            pass
    tot['distinct_nontrivial'] = len(fps)
    return tot, cls_sum, cls_cases, known, samples, rule, failures


def write_evidence(prop, tier, seed, cov, assumptions, wall, violations, extra=None):
    evdir = os.environ.get('RSV_EVIDENCE_DIR', os.path.join(VERIF, 'evidence'))
    os.makedirs(evdir, exist_ok=True)
    ev = dict(property_id=prop, tier=tier, seed=int(seed), level='exploration', coverage=cov, assumptions=assumptions,
              wall_s=round(wall, 2), violations=int(violations))
    if extra:
        ev.update(extra)
    p = os.path.join(evdir, prop + '.json')
    with open(p + '.tmp', 'w') as f:
        json.dump(ev, f, indent=1)
    os.rename(p + '.tmp', p)


def cmd_check(prop, tier, replay=None):
    from checks import CHECKS
    if prop not in CHECKS:
        log('unknown property', prop)
        return 2
    spec = CHECKS[prop]
    seed = int(os.environ.get('VERIF_SEED', '1') or '1')
    jobs = int(os.environ.get('VERIF_JOBS', '16'))
    t0 = time.time()
    scratch = os.path.join(BUILD_ROOT, 'scratch-%s-%d' % (prop, os.getpid()))
    os.makedirs(scratch, exist_ok=True)
    env = dict(os.environ)
    env.update(CHILD_ENV)
    env['RSV_SCRATCH'] = scratch
    known = [k for k in load_known() if k.get('property') == prop and k.get('status') == 'known']
    env['RSV_KNOWN'] = ','.join(k['key'] for k in known)
    try:
        return _check(prop, tier, replay, spec, seed, jobs, t0, scratch, env, known)
    finally:
        shutil.rmtree(scratch, ignore_errors=True)


def _check(prop, tier, replay, spec, seed, jobs, t0, scratch, env, known):
    stages = spec['stages']
    only = os.environ.get('RSV_ONLY_STAGE')  # debugging aid: run the stages whose tag contains this string
    if only and not replay:
        stages = [s for s in stages if only in stage_tag(s)] or stages
    # ---- build everything first -------------------------------------------------
    exes = {}
    try:
        for st in stages:
            if tier == 'quick' and st.get('thorough_only'):
                continue
            if st.get('engine') == 'mpiexec':
                continue
            k = (st['harness'], st.get('variant', 'core'))
            if k not in exes:
                exes[k] = build_check(st)
    except BuildError as e:
        print('BUILD-FAILED property=%s (harness does not build against the current tree)' % prop)
        print(str(e)[-4000:])
        print('INCONCLUSIVE property=%s reason=build' % prop)
        return 2

    if replay and replay.endswith('.e5'):
        import e5
        v, out = e5.replay_file(replay)
        print(out)
        if v == 'FAIL':
            print('VIOLATION property=%s replay=%s' % (prop, replay))
            return 1
        return 0
    if replay:
        st = stages[0]
        base = os.path.basename(replay)
        for s in sorted(stages, key=lambda x: len(stage_tag(x))):
            tag = stage_tag(s)
            if base.startswith(tag + '-') or ('/' + tag + '/') in replay:
                st = s
        v, out = replay_once(exes[(st['harness'], st.get('variant', 'core'))], prop, replay, stage_env(env, st),
                             case_timeout=st.get('replay_case_timeout', 120))
        print(out)
        if failing(v, st):
            print('VIOLATION property=%s replay=%s' % (prop, replay))
            return 1
        return 0

    violations = []
    known_lines = []
    stage_reports = []
    all_stats = []
    # ---- known-finding probes ---------------------------------------------------
    for k in known:
        tp = os.path.join(VERIF, k['replay'])
        cand = [s for s in stages if s['harness'] == k.get('harness', stages[0]['harness'])]
        if not cand:  # only with the RSV_ONLY_STAGE debugging filter
            continue
        st = cand[0]
        v, out = replay_once(exes[(st['harness'], st.get('variant', 'core'))], prop, tp, stage_env(env, st),
                             case_timeout=st.get('replay_case_timeout', 120))
        if v == 'KNOWN':
            known_lines.append('KNOWN-FINDING: property=%s %s [%s]' % (prop, k['what'], k['key']))
        elif failing(v, st):
            violations.append(dict(prop=prop, replay=tp, msg='listed finding %s now fails differently: %s' % (k['key'], out[-800:]),
                                   sample=''))
        else:
            log('[rsv] note: listed finding %s does not reproduce any more (verdict %s)' % (k['key'], v))
    # ---- saved regression inputs (replay tier) -----------------------------------
    n_replayed = 0
    for st in stages:
        if tier == 'quick' and st.get('thorough_only'):
            continue
        if st.get('engine') == 'mpiexec':
            continue
        exe = exes[(st['harness'], st.get('variant', 'core'))]
        tag = stage_tag(st)
        for tp in sorted(glob.glob(os.path.join(VERIF, 'replay', prop, tag, '*.tape'))):
            v, out = replay_once(exe, prop, tp, stage_env(env, st), case_timeout=st.get('replay_case_timeout', 120))
            n_replayed += 1
            if failing(v, st):
                violations.append(dict(prop=prop, replay=tp, msg=out[-1500:], sample='', tag=tag))
    # ---- generated campaigns ------------------------------------------------------
    for si, st in enumerate(stages):
        if tier == 'quick' and st.get('thorough_only'):
            continue
        exe = exes.get((st['harness'], st.get('variant', 'core')))
        par = dict(st.get('common', {}))
        par.update(st.get(tier, {}))
        if par.get('skip'):
            continue
        if os.environ.get('RSV_BUDGET_SCALE'):  # debugging aid: smoke-run a tier with a fraction of its wall-clock budgets
            par['time_budget'] = max(20, int(par.get('time_budget', 600) * float(os.environ['RSV_BUDGET_SCALE'])))
        if st.get('engine') == 'mpiexec':
            import e5
            rep = e5.run_e5_stage(prop, st, par, seed, jobs, scratch, env)
        elif st.get('engine') == 'libfuzzer':
            rep = run_libfuzzer_stage(prop, st, par, seed, jobs, scratch, env)
        else:
            rep = run_rc_stage(prop, st, par, exe, seed, jobs, scratch, env, si)
        stage_reports.append(rep)
        violations.extend(rep.pop('failures'))
    # ---- confirm violations ---------------------------------------------------------
    confirmed = []
    os.makedirs(os.path.join(VERIF, 'findings', prop), exist_ok=True)
    # de-duplicate: one representative (the shortest tape) per failure message class
    best = {}
    for v in violations:
        try:
            v['_len'] = os.path.getsize(v['replay'])
        except OSError:
            v['_len'] = 1 << 30
        k = (v.get('tag'), ''.join(ch for ch in v.get('msg', '') if not ch.isdigit())[:80])
        if k not in best or v['_len'] < best[k]['_len']:
            best[k] = v
    violations = sorted(best.values(), key=lambda v: v['_len'])[:4]
    for v in violations:
        tp = v['replay']
        st = None
        for s in stages:
            if v.get('tag') == stage_tag(s):
                st = s
        st = st or stages[0]
        exe = exes.get((st['harness'], st.get('variant', 'core')))
        oks = 0
        outs = ''
        for _ in range(3):
            if st.get('engine') == 'mpiexec':
                import e5
                vv, outs = e5.replay_file(tp)
                oks += vv == 'FAIL'
                continue
            vv, outs = replay_once(exe, prop, tp, stage_env(env, st), case_timeout=st.get('replay_case_timeout', 120))
            if failing(vv, st):
                oks += 1
        need = 3 if st.get('deterministic', True) else 1
        if oks >= need:
            dst = os.path.join(VERIF, 'findings', prop, stage_tag(st) + '-' + os.path.basename(tp))
            if os.path.abspath(tp) != os.path.abspath(dst) and not tp.startswith(os.path.join(VERIF, 'replay')):
                shutil.copyfile(tp, dst)
            else:
                dst = tp
            v['replay'] = dst
            v['replays_failed'] = oks
            confirmed.append(v)
        else:
            log('[rsv] failure did not reproduce %d/3 (treated as inconclusive): %s' % (oks, v.get('msg', '')[:300]))
    wall = time.time() - t0
    # ---- evidence -----------------------------------------------------------------
    evals = sum(r['evaluations'] for r in stage_reports)
    distinct = sum(r['distinct_nontrivial'] for r in stage_reports)
    samples = []
    for r in stage_reports:
        samples.extend(r['samples'][:4])
    if not samples:
        samples = ['(no non-trivial sample recorded)']
    rule = ' || '.join('%s: %s' % (r['stage'], r['rule']) for r in stage_reports)
    cov = dict(evaluations=evals, distinct_nontrivial=distinct, rule=rule, samples=samples, exhaustive=False,
               stages=stage_reports, replayed_saved_inputs=n_replayed)
    write_evidence(prop, tier, seed, cov, spec.get('assumptions', []), wall, len(confirmed),
                   extra=dict(known_findings=[k['key'] for k in known], violation_details=[
                       dict(replay=os.path.relpath(v['replay'], VERIF), msg=v.get('msg', '')[:1500], sample=v.get('sample', '')[:1000])
                       for v in confirmed]))
    # a listed finding also counts as observed when the generated campaign ran into it (cases excluded by its signature)
    seen = {}
    for r in stage_reports:
        for key, cnt in r['known'].items():
            seen[key] = seen.get(key, 0) + cnt
    for k in known:
        if seen.get(k['key']) and not any(('[%s]' % k['key']) in l for l in known_lines):
            known_lines.append('KNOWN-FINDING: property=%s %s [%s] (its signature excluded %d generated cases of this run)' % (
                prop, k['what'], k['key'], seen[k['key']]))
    keep = os.environ.get('RSV_KEEP_KNOWN')  # maintenance aid: keep the shortest generated input per listed finding (probe refresh)
    if keep:
        os.makedirs(keep, exist_ok=True)
        best = {}
        for f in glob.glob(os.path.join(scratch, 'known-*.tape')):
            key = os.path.basename(f).rsplit('.', 2)[0]
            if key not in best or os.path.getsize(f) < os.path.getsize(best[key]):
                best[key] = f
        for key, f in best.items():
            shutil.copyfile(f, os.path.join(keep, '%s-%s.tape' % (prop, key)))
    for l in known_lines:
        print(l)
    for r in stage_reports:
        print('[%s] %-28s cases=%d nontrivial=%d distinct=%d discard=%d known-excluded=%d inconclusive=%d wall=%.1fs' % (
            prop, r['stage'], r['evaluations'], r['nontrivial'], r['distinct_nontrivial'], r['discard'],
            sum(r['known'].values()), r['inconclusive'], r['wall_s']))
        mins = r.get('min_nontrivial', 0)
        if r['distinct_nontrivial'] < mins and not confirmed:
            print('INCONCLUSIVE property=%s stage=%s only %d distinct non-trivial cases (< %d): machine starved or generator regression' % (
                prop, r['stage'], r['distinct_nontrivial'], mins))
    if confirmed:
        for v in confirmed:
            print('FAILURE-DETAIL property=%s %s' % (prop, v.get('msg', '').replace('\n', ' | ')[:1200]))
            if v.get('sample'):
                print('FAILURE-CASE %s' % v['sample'][:600])
        for v in confirmed:
            print('VIOLATION property=%s replay=%s' % (prop, v['replay']))
        return 1
    print('OK property=%s tier=%s evaluations=%d distinct_nontrivial=%d wall=%.1fs' % (prop, tier, evals, distinct, wall))
    return 0


def run_rc_stage(prop, st, par, exe, seed, jobs, scratch, env, si):
    workers = min(jobs, par.get('workers', jobs))
    cases = par.get('cases', 1000)
    per = max(1, cases // workers)
    t0 = time.time()
    procs = []
    stats_files = []
    for w in range(workers):
        sf = os.path.join(scratch, 'stats-%d-%d.json' % (si, w))
        stats_files.append(sf)
        e = dict(env)
        # distinct, reproducible stream per worker
        wseed = (seed * 1000003 + si * 7919 + w * 104729 + 17 + sum(ord(ch) * 131 ** i for i, ch in enumerate(prop))) & 0x7fffffffffffffff
        e['RC_PARAMS'] = 'seed=%d max_success=%d max_size=%d max_discard_ratio=50' % (wseed, per, par.get('max_size', 100))
        for k, v in st.get('env', {}).items():
            e[k] = str(v)
        for k, v in par.get('env', {}).items():
            e[k] = str(v)
        cmd = [exe, '--prop', prop, '--stats', sf, '--fail-dir', scratch, '--time-budget', str(par.get('time_budget', 600)),
               '--case-timeout', str(par.get('case_timeout', 120)), '--shrink-budget', str(par.get('shrink_budget', 300))]
        if par.get('tape_len'):
            cmd += ['--tape-len', str(par['tape_len'])]
        lf = open(os.path.join(scratch, 'log-%d-%d.txt' % (si, w)), 'wb')
        procs.append((subprocess.Popen(cmd, stdout=lf, stderr=subprocess.STDOUT, env=e), lf, w))
    failures = []
    hard_limit = par.get('time_budget', 600) * 3 + 600
    for p, lf, w in procs:
        try:
            rc = p.wait(timeout=max(10, hard_limit - (time.time() - t0)))
        except subprocess.TimeoutExpired:
            p.kill()
            rc = -9
            log('[rsv] worker %d exceeded the hard limit; killed (inconclusive)' % w)
        lf.close()
        if rc not in (0, 1, 4, -9):
            # the driver itself died: in-process harness crashed on the in-flight tape
            infl = glob.glob(os.path.join(scratch, 'inflight.%d.tape' % p.pid))
            with open(os.path.join(scratch, 'log-%d-%d.txt' % (si, w)), 'rb') as fh:
                tail = sanitizer_digest(fh.read().decode(errors='replace'))
            if infl:
                dst = os.path.join(scratch, '%s-crash-%d.tape' % (prop, p.pid))
                with open(infl[0], 'rb') as fh:
                    raw = fh.read()
                ln = struct.unpack('<I', raw[:4])[0]
                with open(dst, 'wb') as fh:
                    fh.write(raw[4:4 + ln])
                failures.append(dict(prop=prop, replay=dst, msg='harness crashed (exit %d): %s' % (rc, tail), sample='',
                                     tag=stage_tag(st)))
            else:
                log('[rsv] worker %d exited with %d without an in-flight tape:\n%s' % (w, rc, tail))
    tot, cls_sum, cls_cases, known, samples, rule, fl = merge_stats(stats_files)
    for f in fl:
        f['tag'] = stage_tag(st)
        failures.append(f)
    return dict(stage=st.get('name', st['harness']), engine='rapidcheck tape -> ' + st['harness'], evaluations=tot['evaluations'],
                passed=tot['pass_'], failed=tot['fail'], discard=tot['discard'], inconclusive=tot['inconclusive'],
                timeouts=tot['timeouts'], crashes=tot['crashes'], nontrivial=tot['nontrivial'],
                distinct_nontrivial=tot['distinct_nontrivial'], known=known, classes_total=cls_sum,
                classes_cases=cls_cases, samples=samples, rule=rule, wall_s=round(time.time() - t0, 2), workers=workers,
                min_nontrivial=par.get('min_nontrivial', 0), failures=failures)


def run_libfuzzer_stage(prop, st, par, seed, jobs, scratch, env):
    from fuzz import run_fuzz_stage
    return run_fuzz_stage(prop, st, par, seed, jobs, scratch, env)


def cmd_setup():
    try:
        ensure_driver()
    except BuildError as e:
        print(e)
        return 1
    print('setup ok')
    return 0


def cmd_baseline_off():
    bdir = os.path.join(BUILD_ROOT, 'baseline-off-%d' % os.getpid())
    os.makedirs(bdir, exist_ok=True)
    try:
        # same configuration as the pinned baseline build (/repo/_build): RelWithDebInfo, guard OFF
        r = run(['cmake', '-G', 'Ninja', '-S', REPO, '-B', bdir, '-DCMAKE_BUILD_TYPE=RelWithDebInfo', '-DCMAKE_C_FLAGS=-Wno-error'],
                stdout=subprocess.PIPE, stderr=subprocess.STDOUT)
        if r.returncode:
            print(r.stdout.decode(errors='replace')[-3000:])
            return 1
        r = run(['cmake', '--build', bdir], stdout=subprocess.PIPE, stderr=subprocess.STDOUT)
        if r.returncode:
            print(r.stdout.decode(errors='replace')[-3000:])
            return 1
        # full output of passed tests, so that the sub-test lines survive (ctest cuts passed output at 1 KiB by default)
        r = run(['ctest', '--test-dir', bdir, '-j8', '--timeout', '900', '--test-output-size-passed', '50000000',
                 '--test-output-size-failed', '50000000', '--output-junit', os.path.join(bdir, 'junit.xml')],
                stdout=subprocess.PIPE, stderr=subprocess.STDOUT)
        out = r.stdout.decode(errors='replace')
        print(out[-6000:])
        # sub-test level view, named like /root/.vp/BASELINE.json (test::sub-test), from the junit system-out
        passed = set()
        try:
            import xml.etree.ElementTree as ET
            tree = ET.parse(os.path.join(bdir, 'junit.xml'))
            for tc in tree.getroot().iter('testcase'):
                name = tc.get('name')
                so = tc.find('system-out')
                txt = so.text if so is not None and so.text else ''
                # the framework prints "<sub-test name>... " and later, possibly after interleaved log lines, "passed." / "FAILED"
                import re
                ok = tc.find('failure') is None and tc.get('status', 'run') != 'fail'
                pos = [(m.start(), m.group(1)) for m in re.finditer(r'(?m)^([A-Z][^\n]{0,80}?)\.\.\. ', txt)]
                for k, (st_, nm) in enumerate(pos):
                    seg = txt[st_:pos[k + 1][0]] if k + 1 < len(pos) else txt[st_:]
                    if 'passed.' in seg and 'FAILED' not in seg and 'failed.' not in seg:
                        passed.add('%s::%s' % (name, nm.strip()))
                if ok:
                    passed.add('%s::%s' % (name, name))
            os.makedirs(DRV_BUILD, exist_ok=True)
            shutil.copyfile(os.path.join(bdir, 'junit.xml'), os.path.join(DRV_BUILD, 'baseline-off.junit.xml'))
        except Exception as ex:  # the ctest summary above still stands
            print('[baseline-off] junit post-processing failed: %s' % ex)
        want = None
        try:
            with open('/root/.vp/BASELINE.json') as f:
                want = json.load(f).get('stable_pass')
            if isinstance(want, str):
                import ast
                want = ast.literal_eval(want)
        except Exception:
            want = None
        if want:
            missing = [w for w in want if w not in passed]
            print('[baseline-off] guard OFF: %d of %d pinned tests passed%s' % (len(want) - len(missing), len(want),
                                                                              '' if not missing else '; NOT passed: ' + ', '.join(missing)))
            return 0 if not missing else 1
        return 0 if r.returncode == 0 else 1
    finally:
        shutil.rmtree(bdir, ignore_errors=True)


def main(argv):
    if not argv:
        print(__doc__)
        return 2
    sys.path.insert(0, os.path.join(VERIF, 'lib'))
    if argv[0] == 'setup':
        return cmd_setup()
    if argv[0] == 'baseline-off':
        return cmd_baseline_off()
    if argv[0] == 'check':
        prop = argv[1]
        tier = os.environ.get('VERIF_TIER', 'quick')
        replay = None
        i = 2
        while i < len(argv):
            if argv[i] == '--tier':
                tier = argv[i + 1]
                i += 2
            elif argv[i] == '--replay':
                replay = argv[i + 1]
                i += 2
            else:
                i += 1
        return cmd_check(prop, tier, replay)
    if argv[0] == 'selftest':
        from selftest import cmd_selftest
        return cmd_selftest(argv[1:])
    print('unknown command', argv[0])
    return 2
