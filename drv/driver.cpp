// Generation engine E1: rapidcheck drives a byte tape into a C harness (hx/h_*.c).
// Built once by `bin/rsv setup` (no /repo headers in here); linked per check with the
// harness objects that are compiled from /repo's current working tree.
//
//   driver --prop C16 --stats out.json --fail-dir DIR [--tape-len N] [--time-budget S]
//          [--case-timeout S] [--shrink-budget N]         (RC_PARAMS: seed=, max_success=, max_size=)
//   driver --prop C16 --replay FILE                         (plain regression run, no rapidcheck)
#include <rapidcheck.h>

#include <algorithm>
#include <chrono>
#include <cstdio>
#include <cstdlib>
#include <cstring>
#include <cctype>
#include <map>
#include <string>
#include <unordered_set>
#include <vector>

#include <fcntl.h>
#include <poll.h>
#include <signal.h>
#include <sys/mman.h>
#include <sys/stat.h>
#include <sys/wait.h>
#include <unistd.h>

extern "C" {
#include "../hx/rsv_case.h"
void rsv_setup(const char *prop) __attribute__((weak));
}

static std::string g_prop, g_stats, g_faildir = ".", g_errfile;
static double g_time_budget = 1e9, g_case_timeout = 60.0;
static long g_shrink_budget = 400;
static double g_shrink_time = 90.0;
static unsigned g_tape_len = 0;
static int g_child_fd = -1;

static double now_s()
{
	using namespace std::chrono;
	return duration<double>(steady_clock::now().time_since_epoch()).count();
}

struct Stats {
	uint64_t evaluations = 0, pass = 0, fail = 0, discard = 0, inconclusive = 0, timeouts = 0, crashes = 0;
	uint64_t nontrivial = 0;
	uint64_t cls_sum[RSV_NCLS] = {0}, cls_cases[RSV_NCLS] = {0};
	std::unordered_set<uint64_t> fps;
	std::map<std::string, uint64_t> known;
	std::vector<std::string> samples;
	std::vector<int> sample_score;
	uint64_t tape_bytes = 0;
	uint64_t other_prop_failures = 0;
} S;

static std::string json_escape(const std::string &s)
{
	std::string o;
	for(unsigned char c : s) {
		if(c == '"' || c == '\\') {
			o += '\\';
			o += (char)c;
		} else if(c == '\n')
			o += "\\n";
		else if(c == '\t')
			o += "\\t";
		else if(c < 0x20 || c >= 0x7f) {
			char b[8];
			snprintf(b, sizeof b, "\\u%04x", c);
			o += b;
		} else
			o += (char)c;
	}
	return o;
}

static std::string read_tail(const std::string &path, size_t max)
{
	// the head of the first sanitizer / assertion report if there is one, else the tail of the file
	std::string all;
	FILE *f = fopen(path.c_str(), "rb");
	if(!f)
		return all;
	char buf[8192];
	size_t n;
	while((n = fread(buf, 1, sizeof buf, f)) > 0 && all.size() < (1u << 22))
		all.append(buf, n);
	fclose(f);
	static const char *keys[] = {"ERROR: AddressSanitizer", "runtime error:", "Assertion", "RSV hang", "FATAL"};
	size_t best = std::string::npos;
	for(const char *k : keys) {
		size_t p = all.find(k);
		if(p != std::string::npos && p < best)
			best = p;
	}
	if(best != std::string::npos) {
		size_t ls = all.rfind('\n', best);
		ls = ls == std::string::npos ? 0 : ls + 1;
		return all.substr(ls, max);
	}
	return all.size() > max ? all.substr(all.size() - max) : all;
}

// Runs one case; fills res.  Returns false if the child crashed / timed out (res synthesised).
static void run_case(const std::vector<uint8_t> &tape, rsv_result &res, bool &crashed, bool &timedout)
{
	crashed = timedout = false;
	memset(&res, 0, sizeof res);
	if(!rsv_fork_mode) {
		// crash => the whole driver dies; the wrapper reports the in-flight tape ([u32 len][bytes], shared mapping)
		static uint8_t *infl = nullptr;
		const size_t cap = 1 << 20;
		if(!infl) {
			std::string inflight = g_faildir + "/inflight." + std::to_string(getpid()) + ".tape";
			int fd = open(inflight.c_str(), O_CREAT | O_RDWR | O_TRUNC, 0644);
			if(fd >= 0 && ftruncate(fd, cap) == 0) {
				void *m = mmap(nullptr, cap, PROT_READ | PROT_WRITE, MAP_SHARED, fd, 0);
				if(m != MAP_FAILED)
					infl = (uint8_t *)m;
			}
			if(fd >= 0)
				close(fd);
		}
		if(infl && tape.size() + 4 <= cap) {
			uint32_t l = (uint32_t)tape.size();
			memcpy(infl, &l, 4);
			memcpy(infl + 4, tape.data(), tape.size());
		}
		alarm((unsigned)g_case_timeout + 1); // a case that never returns: exit 97, the wrapper reports the in-flight tape
		rsv_case(tape.data(), tape.size(), &res);
		alarm(0);
		return;
	}
	int pfd[2];
	if(pipe(pfd)) {
		perror("pipe");
		exit(3);
	}
	fflush(stdout);
	fflush(stderr);
	pid_t pid = fork();
	if(pid < 0) {
		perror("fork");
		exit(3);
	}
	if(pid == 0) {
		close(pfd[0]);
		int efd = open(g_errfile.c_str(), O_CREAT | O_WRONLY | O_TRUNC, 0644);
		if(efd >= 0) {
			dup2(efd, 2);
			close(efd);
		}
		rsv_result *r = (rsv_result *)calloc(1, sizeof(rsv_result));
		g_child_fd = pfd[1];
		rsv_case(tape.data(), tape.size(), r);
		size_t off = 0;
		while(off < sizeof *r) {
			ssize_t w = write(pfd[1], (char *)r + off, sizeof *r - off);
			if(w <= 0)
				break;
			off += w;
		}
		_exit(0);
	}
	close(pfd[1]);
	size_t off = 0;
	double deadline = now_s() + g_case_timeout;
	while(off < sizeof res) {
		struct pollfd p = {pfd[0], POLLIN, 0};
		double left = deadline - now_s();
		if(left <= 0) {
			timedout = true;
			break;
		}
		int pr = poll(&p, 1, (int)(left * 1000) + 1);
		if(pr < 0 && errno == EINTR)
			continue;
		if(pr == 0) {
			timedout = true;
			break;
		}
		ssize_t r = read(pfd[0], (char *)&res + off, sizeof res - off);
		if(r <= 0)
			break;
		off += r;
	}
	close(pfd[0]);
	if(timedout)
		kill(pid, SIGKILL);
	int st = 0;
	waitpid(pid, &st, 0);
	if(timedout) {
		memset(&res, 0, sizeof res);
		res.verdict = RSV_INCONCLUSIVE;
		snprintf(res.msg, sizeof res.msg, "case exceeded the wall-clock limit of %.0f s (inconclusive, not a violation)",
		    g_case_timeout);
		return;
	}
	if(off < sizeof res) {
		crashed = true;
		memset(&res, 0, sizeof res);
		res.verdict = RSV_FAIL;
		snprintf(res.prop, sizeof res.prop, "%s", g_prop.c_str());
		std::string tail = read_tail(g_errfile, 1200);
		snprintf(res.msg, sizeof res.msg, "harness child died (status 0x%x%s) before reporting; stderr tail: %s", st,
		    WIFSIGNALED(st) ? " signal" : "", tail.c_str());
	}
}

// lets a harness deliver its result from a state it cannot return from (e.g. a proven hang)
extern "C" void rsv_emit_and_exit(const struct rsv_result *r)
{
	if(g_child_fd >= 0) {
		size_t off = 0;
		while(off < sizeof *r) {
			ssize_t w = write(g_child_fd, (const char *)r + off, sizeof *r - off);
			if(w <= 0)
				break;
			off += w;
		}
	}
	_exit(0);
}

static void on_alarm(int)
{
	static const char m[] = "RSV hang: in-process case did not return within the case timeout\n";
	if(write(2, m, sizeof m - 1) < 0) {
	}
	_exit(97);
}

static void write_file(const std::string &path, const void *p, size_t n)
{
	FILE *f = fopen(path.c_str(), "wb");
	if(!f)
		return;
	fwrite(p, 1, n, f);
	fclose(f);
}

static void dump_stats(double wall, const rsv_result *failure, const std::string &failpath)
{
	if(g_stats.empty())
		return;
	FILE *f = fopen(g_stats.c_str(), "w");
	if(!f)
		return;
	fprintf(f, "{\n \"harness\": \"%s\", \"prop\": \"%s\",\n", rsv_harness_name, g_prop.c_str());
	fprintf(f, " \"evaluations\": %llu, \"pass\": %llu, \"fail\": %llu, \"discard\": %llu, \"inconclusive\": %llu,\n",
	    (unsigned long long)S.evaluations, (unsigned long long)S.pass, (unsigned long long)S.fail,
	    (unsigned long long)S.discard, (unsigned long long)S.inconclusive);
	fprintf(f, " \"timeouts\": %llu, \"crashes\": %llu, \"nontrivial\": %llu, \"distinct_nontrivial\": %llu, \"tape_bytes\": %llu,\n",
	    (unsigned long long)S.timeouts, (unsigned long long)S.crashes, (unsigned long long)S.nontrivial,
	    (unsigned long long)S.fps.size(), (unsigned long long)S.tape_bytes);
	fprintf(f, " \"other_property_failures\": %llu,\n", (unsigned long long)S.other_prop_failures);
	fprintf(f, " \"rule\": \"%s\",\n", json_escape(rsv_rule).c_str());
	fprintf(f, " \"cls_sum\": {");
	bool first = true;
	for(int i = 0; i < RSV_NCLS; i++)
		if(rsv_class_names[i]) {
			fprintf(f, "%s\"%s\": %llu", first ? "" : ", ", rsv_class_names[i], (unsigned long long)S.cls_sum[i]);
			first = false;
		}
	fprintf(f, "},\n \"cls_cases\": {");
	first = true;
	for(int i = 0; i < RSV_NCLS; i++)
		if(rsv_class_names[i]) {
			fprintf(f, "%s\"%s\": %llu", first ? "" : ", ", rsv_class_names[i], (unsigned long long)S.cls_cases[i]);
			first = false;
		}
	fprintf(f, "},\n \"known\": {");
	first = true;
	for(auto &k : S.known) {
		fprintf(f, "%s\"%s\": %llu", first ? "" : ", ", json_escape(k.first).c_str(), (unsigned long long)k.second);
		first = false;
	}
	fprintf(f, "},\n \"samples\": [");
	for(size_t i = 0; i < S.samples.size(); i++)
		fprintf(f, "%s\"%s\"", i ? ", " : "", json_escape(S.samples[i]).c_str());
	fprintf(f, "],\n \"wall_s\": %.3f", wall);
	if(failure) {
		fprintf(f, ",\n \"failure\": {\"prop\": \"%s\", \"replay\": \"%s\", \"msg\": \"%s\", \"sample\": \"%s\"}",
		    failure->prop, json_escape(failpath).c_str(), json_escape(failure->msg).c_str(),
		    json_escape(failure->sample).c_str());
	}
	fprintf(f, "\n}\n");
	fclose(f);
	// fingerprints for cross-worker distinct counting
	std::string fp = g_stats + ".fps";
	FILE *g = fopen(fp.c_str(), "wb");
	if(g) {
		for(uint64_t v : S.fps)
			fwrite(&v, sizeof v, 1, g);
		fclose(g);
	}
}

static int replay(const std::string &path)
{
	rsv_fork_mode = 1; // a crash must be reported, not kill the replay
	FILE *f = fopen(path.c_str(), "rb");
	if(!f) {
		fprintf(stderr, "cannot open %s\n", path.c_str());
		return 3;
	}
	std::vector<uint8_t> tape;
	uint8_t buf[4096];
	size_t n;
	while((n = fread(buf, 1, sizeof buf, f)) > 0)
		tape.insert(tape.end(), buf, buf + n);
	fclose(f);
	rsv_result res;
	bool crashed, timedout;
	run_case(tape, res, crashed, timedout);
	static const char *vn[] = {"PASS", "FAIL", "DISCARD", "KNOWN", "INCONCLUSIVE"};
	if(timedout)
		vn[4] = "TIMEOUT";
	printf("REPLAY verdict=%s prop=%s nontrivial=%u known=%s\n", vn[res.verdict], res.prop[0] ? res.prop : g_prop.c_str(),
	    res.nontrivial, res.known);
	if(res.sample[0])
		printf("CASE %s\n", res.sample);
	if(res.msg[0])
		printf("MSG %s\n", res.msg);
	for(int i = 0; i < RSV_NCLS; i++)
		if(rsv_class_names[i] && res.cls[i])
			printf("  cls %s=%llu\n", rsv_class_names[i], (unsigned long long)res.cls[i]);
	return res.verdict == RSV_FAIL ? 1 : 0;
}

#include <dirent.h>
static int corpus_stats(const std::string &dir)
{
	DIR *dp = opendir(dir.c_str());
	if(!dp)
		return 3;
	double t0 = now_s();
	struct dirent *de;
	while((de = readdir(dp)) != nullptr) {
		if(de->d_name[0] == '.')
			continue;
		std::string p = dir + "/" + de->d_name;
		FILE *f = fopen(p.c_str(), "rb");
		if(!f)
			continue;
		std::vector<uint8_t> tape;
		uint8_t buf[4096];
		size_t n;
		while((n = fread(buf, 1, sizeof buf, f)) > 0)
			tape.insert(tape.end(), buf, buf + n);
		fclose(f);
		rsv_result res;
		bool crashed, timedout;
		run_case(tape, res, crashed, timedout);
		S.evaluations++;
		S.tape_bytes += tape.size();
		if(res.verdict == RSV_PASS) {
			S.pass++;
			for(int i = 0; i < RSV_NCLS; i++) {
				S.cls_sum[i] += res.cls[i];
				S.cls_cases[i] += res.cls[i] != 0;
			}
			if(res.nontrivial) {
				S.nontrivial++;
				if(S.fps.insert(res.fingerprint).second && S.samples.size() < 5 && res.sample[0])
					S.samples.push_back(res.sample);
			}
		} else if(res.verdict == RSV_FAIL)
			S.fail++;
		else
			S.discard++;
	}
	closedir(dp);
	dump_stats(now_s() - t0, nullptr, "");
	return 0;
}

int main(int argc, char **argv)
{
	std::string replay_path, corpus_dir;
	for(int i = 1; i < argc; i++) {
		std::string a = argv[i];
		auto next = [&]() -> std::string { return i + 1 < argc ? argv[++i] : ""; };
		if(a == "--prop")
			g_prop = next();
		else if(a == "--stats")
			g_stats = next();
		else if(a == "--fail-dir")
			g_faildir = next();
		else if(a == "--replay")
			replay_path = next();
		else if(a == "--corpus")
			corpus_dir = next();
		else if(a == "--tape-len")
			g_tape_len = atoi(next().c_str());
		else if(a == "--time-budget")
			g_time_budget = atof(next().c_str());
		else if(a == "--case-timeout")
			g_case_timeout = atof(next().c_str());
		else if(a == "--shrink-budget")
			g_shrink_budget = atol(next().c_str());
		else if(a == "--shrink-time")
			g_shrink_time = atof(next().c_str());
		else {
			fprintf(stderr, "unknown argument %s\n", a.c_str());
			return 3;
		}
	}
	signal(SIGPIPE, SIG_IGN);
	signal(SIGALRM, on_alarm);
	g_errfile = g_faildir + "/child." + std::to_string(getpid()) + ".stderr";
	if(rsv_setup)
		rsv_setup(g_prop.c_str());
	if(!replay_path.empty())
		return replay(replay_path);
	if(!corpus_dir.empty())
		return corpus_stats(corpus_dir);
	if(!g_tape_len)
		g_tape_len = rsv_default_tape_len;

	const double t0 = now_s();
	bool have_fail = false;
	long after_fail = 0;
	long total_timeouts = 0;
	double t_fail = 0;
	std::vector<uint8_t> fail_tape;
	rsv_result fail_res;
	memset(&fail_res, 0, sizeof fail_res);

	auto byteGen = rc::gen::resize(100, rc::gen::inRange<int>(0, 256));
	// tape length grows with the rapidcheck size; elements are uniform bytes shrinking towards 0
	auto tapeGen = rc::gen::withSize([=](int size) {
		double f = (double)g_tape_len / 100.0;
		int target = std::max(4, (int)(f * (size + 1)));
		return rc::gen::resize(target, rc::gen::container<std::vector<int>>(byteGen));
	});

	bool ok = rc::check(std::string("property ") + g_prop + " via " + rsv_harness_name, [&]() {
		// after the budgets are used up every further invocation is a no-op success
		if(!have_fail && now_s() - t0 > g_time_budget)
			return;
		if(have_fail && (++after_fail > g_shrink_budget || now_s() - t_fail > g_shrink_time))
			return;
		if(total_timeouts >= 3)
			return; // cases that run into the wall-clock limit are too expensive to keep generating or shrinking
		std::vector<int> ti = *tapeGen;
		std::vector<uint8_t> tape(ti.begin(), ti.end());
		rsv_result res;
		bool crashed, timedout;
		run_case(tape, res, crashed, timedout);
		total_timeouts += timedout;
		if(res.verdict == RSV_FAIL && g_prop == "C11" && strcmp(res.prop, "C11")) {
			// C11 (memory safety / UB) is decided by crashes, sanitizer reports and assertions only; a semantic oracle of
			// another property that fails here is counted, it does not fail this check
			res.verdict = RSV_PASS;
			S.other_prop_failures++;
		}
		if(!have_fail) { // statistics describe the generated campaign, not the shrink attempts
			S.evaluations++;
			S.tape_bytes += tape.size();
			if(crashed)
				S.crashes++;
			if(timedout)
				S.timeouts++;
			switch(res.verdict) {
				case RSV_PASS:
					S.pass++;
					break;
				case RSV_FAIL:
					S.fail++;
					break;
				case RSV_DISCARD:
					S.discard++;
					break;
				case RSV_KNOWN: {
					S.known[res.known]++;
					// keep the shortest input that shows a listed finding: it can serve as its probe (known/<ID>/...)
					static std::map<std::string, size_t> best;
					auto it = best.find(res.known);
					if(it == best.end() || tape.size() < it->second) {
						best[res.known] = tape.size();
						std::string key = res.known;
						for(auto &ch : key)
							if(!isalnum((unsigned char)ch) && ch != '-')
								ch = '_';
						std::string fn = g_faildir + "/known-" + key + "." + std::to_string(getpid()) + ".tape";
						if(FILE *kf = fopen(fn.c_str(), "wb")) {
							fwrite(tape.data(), 1, tape.size(), kf);
							fclose(kf);
						}
					}
					break;
				}
				default:
					S.inconclusive++;
			}
			if(res.verdict == RSV_PASS || res.verdict == RSV_FAIL) {
				for(int i = 0; i < RSV_NCLS; i++) {
					S.cls_sum[i] += res.cls[i];
					S.cls_cases[i] += res.cls[i] != 0;
				}
				if(res.nontrivial) {
					S.nontrivial++;
					bool fresh = S.fps.insert(res.fingerprint).second;
					if(fresh && res.sample[0]) {
						int score = 0;
						for(int i = 0; i < RSV_NCLS; i++)
							score += res.cls[i] != 0;
						if(S.samples.size() < 5) {
							S.samples.push_back(res.sample);
							S.sample_score.push_back(score);
						} else {
							size_t lo = 0;
							for(size_t i = 1; i < S.samples.size(); i++)
								if(S.sample_score[i] < S.sample_score[lo])
									lo = i;
							if(score > S.sample_score[lo]) {
								S.samples[lo] = res.sample;
								S.sample_score[lo] = score;
							}
						}
					}
				}
			}
		}
		if(res.verdict == RSV_FAIL) {
			if(!have_fail)
				t_fail = now_s();
			have_fail = true;
			fail_tape = tape;
			fail_res = res;
			RC_FAIL(std::string(res.prop) + ": " + res.msg);
		}
	});

	double wall = now_s() - t0;
	unlink(g_errfile.c_str());
	if(!rsv_fork_mode)
		unlink((g_faildir + "/inflight." + std::to_string(getpid()) + ".tape").c_str());
	if(!ok && have_fail) {
		char name[256];
		uint64_t h = rsv_hash_bytes(1469598103934665603ULL, fail_tape.data(), fail_tape.size());
		snprintf(name, sizeof name, "%s/%s-%016llx.tape", g_faildir.c_str(),
		    fail_res.prop[0] ? fail_res.prop : g_prop.c_str(), (unsigned long long)h);
		write_file(name, fail_tape.data(), fail_tape.size());
		dump_stats(wall, &fail_res, name);
		printf("FAILURE prop=%s replay=%s\n", fail_res.prop[0] ? fail_res.prop : g_prop.c_str(), name);
		printf("CASE %s\nMSG %s\n", fail_res.sample, fail_res.msg);
		return 1;
	}
	dump_stats(wall, nullptr, "");
	return ok ? 0 : 4; // 4: rapidcheck gave up (e.g. too many discards) without a counterexample
}
