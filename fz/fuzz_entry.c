/* E2: libFuzzer entry.  The fuzzer's byte string IS the tape of the harness it is linked with, so coverage feedback
 * steers the same decoder rapidcheck drives, crash artefacts are replay tapes, and the semantic oracle of the harness
 * (not only the sanitizers) decides. */
#include <stdio.h>
#include <stdlib.h>
#include <string.h>
#include <unistd.h>

#include "rsv_case.h"

void rsv_setup(const char *prop) __attribute__((weak));

int LLVMFuzzerTestOneInput(const uint8_t *data, size_t size)
{
	static int init;
	static const char *prop;
	if(!init) {
		init = 1;
		prop = getenv("RSV_PROP") ? getenv("RSV_PROP") : "";
		if(rsv_setup)
			rsv_setup(prop);
	}
	static struct rsv_result r;
	memset(&r, 0, sizeof r);
	rsv_case(data, size, &r);
	if(r.verdict == RSV_FAIL && !(!strcmp(prop, "C11") && strcmp(r.prop, "C11"))) {
		fprintf(stderr, "RSV-FAIL prop=%s msg=%s\nRSV-CASE %s\n", r.prop, r.msg, r.sample);
		fflush(stderr);
		__builtin_trap();
	}
	return 0;
}
