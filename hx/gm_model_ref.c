#define GM_REF 1
#include "gm_model.c"
