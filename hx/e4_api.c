#include "e4_api.h"

#define SW(call_pre, call_post)                                                                                        \
	switch(rsv_get_rank()) {                                                                                       \
		case 1:                                                                                                \
			call_pre r1_##call_post;                                                                       \
		case 2:                                                                                                \
			call_pre r2_##call_post;                                                                       \
		case 3:                                                                                                \
			call_pre r3_##call_post;                                                                       \
		default:                                                                                               \
			call_pre r0_##call_post;                                                                       \
	}

void e4_ScheduleNewEvent(lp_id_t r, simtime_t t, unsigned ty, const void *c, unsigned s)
{
	switch(rsv_get_rank()) {
		case 1:
			r1_ScheduleNewEvent(r, t, ty, c, s);
			return;
		case 2:
			r2_ScheduleNewEvent(r, t, ty, c, s);
			return;
		case 3:
			r3_ScheduleNewEvent(r, t, ty, c, s);
			return;
		default:
			r0_ScheduleNewEvent(r, t, ty, c, s);
			return;
	}
}
void e4_SetState(void *p)
{
	switch(rsv_get_rank()) {
		case 1:
			r1_SetState(p);
			return;
		case 2:
			r2_SetState(p);
			return;
		case 3:
			r3_SetState(p);
			return;
		default:
			r0_SetState(p);
			return;
	}
}
void *e4_rs_malloc(size_t n)
{
	SW(return, rs_malloc(n))
}
void *e4_rs_calloc(size_t a, size_t b)
{
	SW(return, rs_calloc(a, b))
}
void e4_rs_free(void *p)
{
	switch(rsv_get_rank()) {
		case 1:
			r1_rs_free(p);
			return;
		case 2:
			r2_rs_free(p);
			return;
		case 3:
			r3_rs_free(p);
			return;
		default:
			r0_rs_free(p);
			return;
	}
}
void *e4_rs_realloc(void *p, size_t n)
{
	SW(return, rs_realloc(p, n))
}
double e4_Random(void)
{
	SW(return, Random())
}
uint64_t e4_RandomU64(void)
{
	SW(return, RandomU64())
}
double e4_Poisson(void)
{
	SW(return, Poisson())
}
double e4_Normal(void)
{
	SW(return, Normal())
}
int e4_RandomRange(int a, int b)
{
	SW(return, RandomRange(a, b))
}
int e4_RandomRangeNonUniform(int x, int a, int b)
{
	SW(return, RandomRangeNonUniform(x, a, b))
}
double e4_Gamma(unsigned ia)
{
	SW(return, Gamma(ia))
}
unsigned e4_Zipf(double s, unsigned l)
{
	SW(return, Zipf(s, l))
}
void e4_RootsimStop(void)
{
	switch(rsv_get_rank()) {
		case 1:
			r1_RootsimStop();
			return;
		case 2:
			r2_RootsimStop();
			return;
		case 3:
			r3_RootsimStop();
			return;
		default:
			r0_RootsimStop();
			return;
	}
}
int e4_RootsimInit(int rank, const struct simulation_configuration *c)
{
	switch(rank) {
		case 1:
			return r1_RootsimInit(c);
		case 2:
			return r2_RootsimInit(c);
		case 3:
			return r3_RootsimInit(c);
		default:
			return r0_RootsimInit(c);
	}
}
int e4_RootsimRun(int rank)
{
	switch(rank) {
		case 1:
			return r1_RootsimRun();
		case 2:
			return r2_RootsimRun();
		case 3:
			return r3_RootsimRun();
		default:
			return r0_RootsimRun();
	}
}
struct lp_ctx *e4_lps(int rank)
{
	switch(rank) {
		case 1:
			return r1_lps;
		case 2:
			return r2_lps;
		case 3:
			return r3_lps;
		default:
			return r0_lps;
	}
}
