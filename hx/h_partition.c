/* C14: every LP has exactly one owner and routing agrees with ownership.
 * Real code under test: lp/lp.c (included textually: partition_start, lp_global_init, lp_init, lid_to_nid,
 * lid_to_rid); the per-LP construction callees are replaced by recording stubs. */
#include <stdlib.h>
#include <string.h>

struct lp_ctx;
struct mm_state;
struct rng_ctx;
struct auto_ckpt;
static void h_mm_init(struct mm_state *s);
static void h_mm_fini(struct mm_state *s);
static void *h_rs_malloc(size_t n);
static void h_process_init(struct lp_ctx *lp);
static void h_process_fini(struct lp_ctx *lp);
static void h_term_init(struct lp_ctx *lp);
static void h_ackpt_init(struct auto_ckpt *a);

#define model_allocator_lp_init h_mm_init
#define model_allocator_lp_fini h_mm_fini
#define rs_malloc h_rs_malloc
#define random_lib_lp_init h_rng_init
#define auto_ckpt_lp_init h_ackpt_init
#define process_lp_init h_process_init
#define process_lp_fini h_process_fini
#define termination_lp_init h_term_init

#include <stdint.h>
static void h_rng_init(uint64_t lp_id, struct rng_ctx *r);

#include <lp/lp.c>

#include "rsv_case.h"

const char *rsv_harness_name = "h_partition";
int rsv_fork_mode = 0;
unsigned rsv_default_tape_len = 40;
const char *rsv_rule =
    "tape -> (LPs, ranks, threads): LPs exhaustive-ish below 80 and log-uniform up to 2^20, ranks 1..64, threads 1..64, "
    "boundary triples weighted; for every rank the real lp_global_init() and for every thread the real lp_init() run; "
    "oracle: rank ranges contiguous/disjoint/cover [0,LPs), thread ranges contiguous/disjoint/cover the rank's range, "
    "each LP constructed exactly once and finalised exactly once by the same owner, lid_to_nid/lid_to_rid of every id "
    "(all ids when LPs<=4096, else boundaries and samples) equal the owner, no empty thread when the rank hosts >= "
    "threads LPs; non-trivial = LPs not divisible by ranks or (LPs of a rank) not divisible by threads; distinct = the triple";
enum { CL_NONDIV, CL_FEWER_THAN_THREADS, CL_ONE_LP, CL_EMPTY_RANK, CL_BIG, CL_IDS_CHECKED };
const char *rsv_class_names[RSV_NCLS] = {"not_divisible", "rank_with_fewer_lps_than_threads", "single_lp",
    "rank_without_lps", "lps_above_4096", "ids_checked"};

static uint32_t *init_cnt, *fini_cnt, *mm_cnt, *rng_cnt;
static uint16_t *own_rank, *own_thr;
static uint64_t cap;
static int cur_rank, cur_thr;

static void h_mm_init(struct mm_state *s)
{
	struct lp_ctx *lp = (struct lp_ctx *)((char *)s - offsetof(struct lp_ctx, mm_state));
	mm_cnt[lp - lps]++;
}
static void h_mm_fini(struct mm_state *s)
{
	(void)s;
}
static struct rng_ctx dummy_rng;
static void *h_rs_malloc(size_t n)
{
	(void)n;
	return &dummy_rng;
}
static void h_rng_init(uint64_t lp_id, struct rng_ctx *r)
{
	(void)r;
	rng_cnt[lp_id]++;
}
static void h_ackpt_init(struct auto_ckpt *a)
{
	(void)a;
}
static void h_process_init(struct lp_ctx *lp)
{
	uint64_t i = lp - lps;
	init_cnt[i]++;
	own_rank[i] = (uint16_t)cur_rank;
	own_thr[i] = (uint16_t)cur_thr;
}
static void h_process_fini(struct lp_ctx *lp)
{
	uint64_t i = lp - lps;
	fini_cnt[i]++;
	if(own_rank[i] != cur_rank || own_thr[i] != cur_thr)
		fini_cnt[i] += 1000;
}
static void h_term_init(struct lp_ctx *lp)
{
	(void)lp;
}

/* the core's logger is referenced by lp.c */

int rsv_case(const uint8_t *tape, size_t len, struct rsv_result *res)
{
	struct tape T = {tape, len, 0}, *t = &T;
	uint64_t L;
	unsigned R, Th;
	unsigned m = t_choice(t, 8);
	if(m < 4)
		L = 1 + t_choice(t, 80);
	else if(m < 6)
		L = 1 + t_choice(t, 4096);
	else {
		unsigned e = t_choice(t, 21);
		L = (1ULL << e) + (t_u32(t) % (1ULL << e));
		if(t_prob(t, 64))
			L = (1ULL << e) - (e > 0);
		if(L == 0)
			L = 1;
	}
	static const unsigned small[] = {1, 2, 3, 4, 5, 7, 8, 16, 63, 64};
	R = t_prob(t, 128) ? small[t_choice(t, 10)] : 1 + t_choice(t, 64);
	Th = t_prob(t, 128) ? small[t_choice(t, 10)] : 1 + t_choice(t, 64);
	if(m == 7 && t_prob(t, 128)) { /* boundary relations */
		unsigned k = t_choice(t, 4);
		L = k == 0 ? (uint64_t)R * Th : k == 1 ? (uint64_t)R * Th + 1 : k == 2 ? (uint64_t)R * Th - 1 : R;
		if(L == 0)
			L = 1;
	}
	rsv_sample(res, "LPs=%llu ranks=%u threads=%u", (unsigned long long)L, R, Th);
	res->fingerprint = rsv_mix(rsv_mix(L, R), Th);
	res->cls[CL_ONE_LP] = L == 1;
	res->cls[CL_BIG] = L > 4096;

	if(L + 2 > cap) {
		cap = L + 2;
		free(init_cnt), free(fini_cnt), free(mm_cnt), free(rng_cnt), free(own_rank), free(own_thr);
		init_cnt = malloc(cap * 4), fini_cnt = malloc(cap * 4), mm_cnt = malloc(cap * 4), rng_cnt = malloc(cap * 4);
		own_rank = malloc(cap * 2), own_thr = malloc(cap * 2);
	}
	memset(init_cnt, 0, (L + 1) * 4), memset(fini_cnt, 0, (L + 1) * 4), memset(mm_cnt, 0, (L + 1) * 4);
	memset(rng_cnt, 0, (L + 1) * 4);

	global_config.log_level = LOG_SILENT;
	global_config.lps = L;
	n_nodes = (nid_t)R;
	uint64_t next_first = 0;
	int nontriv = L % R != 0;
	for(unsigned r = 0; r < R && res->verdict != RSV_FAIL; r++) {
		nid = (nid_t)r;
		cur_rank = (int)r;
		global_config.n_threads = Th;
		lp_global_init();
		uint64_t nfirst = lid_node_first, ncnt = n_lps_node;
		unsigned eff_thr = global_config.n_threads;
		if(nfirst != next_first)
			rsv_fail(res, "C14", "rank %u starts at LP %llu, previous rank ended at %llu (gap or overlap)", r,
			    (unsigned long long)nfirst, (unsigned long long)next_first);
		next_first = nfirst + ncnt;
		if(ncnt == 0)
			res->cls[CL_EMPTY_RANK] = 1;
		if(ncnt < Th) {
			res->cls[CL_FEWER_THAN_THREADS] = 1;
			if(eff_thr != ncnt)
				rsv_fail(res, "C14", "rank %u hosts %llu LPs but runs %u threads", r, (unsigned long long)ncnt, eff_thr);
		} else if(eff_thr != Th)
			rsv_fail(res, "C14", "rank %u: thread count changed from %u to %u although it hosts %llu LPs", r, Th, eff_thr,
			    (unsigned long long)ncnt);
		if(eff_thr && ncnt % eff_thr)
			nontriv = 1;
		uint64_t tnext = nfirst;
		for(unsigned th = 0; th < eff_thr && res->verdict != RSV_FAIL; th++) {
			rid = th;
			cur_thr = (int)th;
			lp_init();
			if(lid_thread_first != tnext)
				rsv_fail(res, "C14", "rank %u thread %u starts at LP %llu, previous thread ended at %llu", r, th,
				    (unsigned long long)lid_thread_first, (unsigned long long)tnext);
			if(lid_thread_end < lid_thread_first)
				rsv_fail(res, "C14", "rank %u thread %u has a negative range", r, th);
			if(ncnt >= eff_thr && lid_thread_end == lid_thread_first)
				rsv_fail(res, "C14", "rank %u thread %u owns no LP although the rank hosts %llu >= %u LPs", r, th,
				    (unsigned long long)ncnt, eff_thr);
			tnext = lid_thread_end;
			/* routing on the owner's rank: every id of this thread maps back to (r, th) */
			uint64_t a = lid_thread_first, b = lid_thread_end;
			uint64_t step = (b - a) > 4096 ? (b - a) / 1024 : 1;
			for(uint64_t j = a; j < b + step && b > a; j += step) {
				uint64_t i = j < b ? j : b - 1; /* always include the last id of the range */
				res->cls[CL_IDS_CHECKED]++;
				if(lid_to_nid(i) != (nid_t)r)
					rsv_fail(res, "C14", "LP %llu is constructed by rank %u but routed to rank %d", (unsigned long long)i, r,
					    lid_to_nid(i));
				if(lid_to_rid(i) != th)
					rsv_fail(res, "C14", "LP %llu is constructed by thread %u of rank %u but routed to thread %u",
					    (unsigned long long)i, th, r, lid_to_rid(i));
				if(res->verdict == RSV_FAIL || j >= b)
					break;
			}
			lp_fini();
		}
		if(eff_thr && tnext != nfirst + ncnt)
			rsv_fail(res, "C14", "threads of rank %u cover up to LP %llu, the rank hosts up to %llu", r,
			    (unsigned long long)tnext, (unsigned long long)(nfirst + ncnt));
		lp_global_fini();
	}
	if(res->verdict != RSV_FAIL && next_first != L)
		rsv_fail(res, "C14", "ranks cover LPs up to %llu of %llu", (unsigned long long)next_first, (unsigned long long)L);
	for(uint64_t i = 0; i < L && res->verdict != RSV_FAIL; i++) {
		/* ranks without threads (no LPs) construct nothing; every LP must still have exactly one owner */
		if(init_cnt[i] != 1 || fini_cnt[i] != 1 || mm_cnt[i] != 1 || rng_cnt[i] != 1)
			rsv_fail(res, "C14", "LP %llu constructed %u times, finalised %u times (1000+ = by a different owner), allocator %u, rng %u",
			    (unsigned long long)i, init_cnt[i], fini_cnt[i], mm_cnt[i], rng_cnt[i]);
	}
	res->cls[CL_NONDIV] = nontriv;
	res->nontrivial = nontriv;
	return res->verdict;
}
