/* Interpreter of the generated model family (see gm_model.h, DESIGN.md App. B).
 * Compiled twice: plain (against ROOT-Sim.h: the runtime under test) and with -DGM_REF (against the reference
 * environment in refexec.c).  The handler is a deterministic function of (state, event); all its state lives in
 * memory obtained from the rollbackable allocator and is reachable from the SetState pointer. */
#include <math.h>
#include <string.h>

#include <ROOT-Sim.h>
#include <lp/msg.h>

#include "gm_model.h"
#include "refexec.h"

#ifdef GM_REF
#define A(x) ref_##x
#define OUT ref_gm_out
#define FN(x) ref_##x
#else
#ifdef GM_E4
#include "e4_api.h"
#define A(x) e4_##x
#else
#define A(x) x
#endif
#define OUT gm_out
#define FN(x) x
extern int rsv_cur_rid(void);
extern int rsv_get_rank(void);
#endif

#define GM_CHAIN_FLAG 0x100u

struct gm_env_out OUT;
#ifndef GM_REF
struct gm_spec gm_spec;
#endif

struct gm_buf {
	struct gm_buf *next;
	uint32_t len;
	uint32_t pad;
	unsigned char bytes[];
};

struct gm_state {
	uint64_t hash;
	uint64_t prng;
	uint32_t handled, goal;
	uint32_t frozen, nbuf;
	uint32_t relays, pad2;
	double frozen_at;
	struct gm_buf *bufs;
};

static inline uint64_t sm(uint64_t *s)
{
	uint64_t z = (*s += 0x9e3779b97f4a7c15ULL);
	z = (z ^ (z >> 30)) * 0xbf58476d1ce4e5b9ULL;
	z = (z ^ (z >> 27)) * 0x94d049bb133111ebULL;
	return z ^ (z >> 31);
}
static inline uint64_t fold(uint64_t h, uint64_t v)
{
	h ^= v + 0x9e3779b97f4a7c15ULL + (h << 6) + (h >> 2);
	h *= 0xff51afd7ed558ccdULL;
	return h ^ (h >> 32);
}
static inline uint64_t fold_bytes(uint64_t h, const unsigned char *p, size_t n)
{
	for(size_t i = 0; i < n; i++)
		h = (h ^ p[i]) * 0x100000001b3ULL;
	return fold(h, n);
}
static inline uint64_t dbits(double d)
{
	uint64_t u;
	memcpy(&u, &d, 8);
	return u;
}

uint64_t FN(gm_state_digest)(const void *st)
{
	const struct gm_state *s = st;
	if(!s)
		return 0x1234;
	uint64_t h = fold(fold(fold(s->hash, s->prng), ((uint64_t)s->handled << 32) | s->goal), s->frozen * 3 + s->nbuf * 16 + ((uint64_t)s->relays << 20));
	for(const struct gm_buf *b = s->bufs; b; b = b->next)
		h = fold_bytes(fold(h, b->len), b->bytes, b->len);
	return h;
}

/* would an event (t, type, size, pl) precede the event being handled under the TREE's order? */
static bool would_precede(double t, unsigned type, unsigned size, const unsigned char *pl, double now, unsigned cur_type,
    unsigned cur_size, const void *cur_pl)
{
	static __thread unsigned char bufa[sizeof(struct lp_msg) + GM_MAXPL], bufb[sizeof(struct lp_msg) + GM_MAXPL];
	struct lp_msg *a = (struct lp_msg *)bufa, *b = (struct lp_msg *)bufb;
	a->dest_t = t;
	a->raw_flags = 0;
	a->m_type = type;
	a->pl_size = size;
	if(size)
		memcpy(a->pl, pl, size);
	b->dest_t = now;
	b->raw_flags = 0;
	b->m_type = cur_type;
	b->pl_size = cur_size;
	if(cur_size)
		memcpy(b->pl, cur_pl, cur_size);
	return msg_is_before(a, b);
}

static void log_dispatch(uint64_t me, double now, unsigned type, const void *content, unsigned size)
{
	if(!OUT.log_enabled)
		return;
	if(OUT.log_n == OUT.log_cap) {
		OUT.log_cap = OUT.log_cap ? OUT.log_cap * 2 : 1024;
		OUT.log = realloc(OUT.log, OUT.log_cap * sizeof *OUT.log);
	}
	struct gm_dispatch *d = &OUT.log[OUT.log_n++];
	d->lp = (uint32_t)me;
	d->type = type;
	d->size = size;
	d->t = now;
	d->plhash = fold_bytes(7, content, size);
}

static uint32_t pick_size(uint64_t r, unsigned cls)
{
	static const uint32_t sz[] = {1, 24, 63, 64, 65, 200, 1000, 4096, 32768 - 16, 65536 - 16};
	uint32_t s = sz[cls < 10 ? cls : (unsigned)(r % 6)];
	return s;
}

static void do_mem(struct gm_state *s, const struct gm_act *ac)
{
	uint64_t r = sm(&s->prng);
	unsigned op = ac->a % 6;
	OUT.mem_ops++;
	if(op == 0 || op == 3) { /* new buffer */
		if(s->nbuf >= 10)
			op = 1;
		else {
			uint32_t len = pick_size(r, ac->b % 12);
			struct gm_buf *b = op == 0 ? A(rs_malloc)(sizeof *b + len) : A(rs_calloc)(1, sizeof *b + len);
			if(!b) {
				s->hash = fold(s->hash, 0xdead0000 + len);
				return;
			}
			b->len = len;
			b->pad = 0;
			if(op == 0)
				for(uint32_t i = 0; i < len; i++)
					b->bytes[i] = (unsigned char)(r >> ((i & 7) * 8)) ^ (unsigned char)i;
			else {
				for(uint32_t i = 0; i < len; i++)
					if(b->bytes[i])
						s->hash = fold(s->hash, 0xbad0ca110cULL + i); /* calloc memory must be zero */
			}
			b->next = s->bufs;
			s->bufs = b;
			s->nbuf++;
			s->hash = fold(s->hash, 0xa110c + len);
			return;
		}
	}
	if(op == 5) { /* over-size request: must fail, may not be relied upon */
		void *p = A(rs_malloc)(65536 + 1 + (r & 1023));
		if(p) {
			s->hash = fold(s->hash, 0x0b16);
			A(rs_free)(p);
		} else
			OUT.big_alloc_failed++;
		return;
	}
	if(!s->nbuf)
		return;
	unsigned idx = (unsigned)((r >> 8) % s->nbuf);
	struct gm_buf **pp = &s->bufs;
	while(idx--)
		pp = &(*pp)->next;
	struct gm_buf *b = *pp;
	if(op == 1) { /* free */
		*pp = b->next;
		s->hash = fold(s->hash, 0xf4ee + b->len);
		A(rs_free)(b);
		s->nbuf--;
	} else if(op == 2) { /* realloc */
		uint32_t nlen = ac->c & 1 ? b->len + 1 + (uint32_t)(r % 70) : pick_size(r >> 20, (unsigned)(r >> 16) % 8);
		struct gm_buf *nb = A(rs_realloc)(b, sizeof *nb + nlen);
		if(!nb) {
			s->hash = fold(s->hash, 0x4ea110c);
			return;
		}
		for(uint32_t i = nb->len; i < nlen; i++)
			nb->bytes[i] = (unsigned char)(i * 31 + (unsigned)r);
		nb->len = nlen;
		*pp = nb;
		s->hash = fold(s->hash, 0x4ea1 + nlen);
	} else { /* write */
		uint32_t off = (uint32_t)((r >> 24) % b->len), n = 1 + (uint32_t)((r >> 40) % 64);
		if(off + n > b->len)
			n = b->len - off;
		for(uint32_t i = 0; i < n; i++)
			b->bytes[off + i] ^= (unsigned char)(r >> (i & 7));
		s->hash = fold(s->hash, 0x3417e + off);
	}
}

static void do_draw(struct gm_state *s, const struct gm_act *ac)
{
	uint64_t v;
	OUT.lib_draws++;
	switch(ac->a % 8) {
		case 0:
			v = dbits(A(Random)());
			break;
		case 1:
			v = A(RandomU64)();
			break;
		case 2:
			v = (uint64_t)A(RandomRange)((int)ac->b, (int)ac->b + 1 + ac->c * 300);
			break;
		case 3:
			v = (uint64_t)A(RandomRangeNonUniform)((int)ac->b * 1000 + 1, (int)ac->c, (int)ac->c + 50 + ac->b);
			break;
		case 4:
			v = dbits(A(Poisson)() * (1.0 + ac->b));
			break;
		case 5:
			v = dbits(A(Normal)());
			break;
		case 6:
			v = dbits(A(Gamma)(ac->b % 12));
			break;
		default:
			v = A(Zipf)(1.5 + (ac->b % 4), 1 + ac->c);
			break;
	}
	s->hash = fold(s->hash, v);
}

static void do_send(uint64_t me, struct gm_state *s, const struct gm_act *ac, double now, unsigned type, const void *content,
    unsigned size, unsigned send_idx)
{
	const struct gm_spec *g = &gm_spec;
	uint64_t r = sm(&s->prng);
	/* long zero-delay chains: a chain event (flag in the type, remaining length in the first payload byte) is continued by
	 * the first SEND action only, with high probability, so that chains neither die at once nor branch */
	int in_chain = type < LP_INIT && type != GM_HB_TYPE && (type & GM_CHAIN_FLAG) && size > 0;
	unsigned chain_left = in_chain ? ((const unsigned char *)content)[0] : 0;
	if(in_chain) {
		if(send_idx > 0 || !chain_left || (r & 255) >= 245)
			return;
	} else if((r & 255) >= g->send_prob)
		return;
	/* destination */
	uint64_t dest;
	unsigned dm = g->dest_mode == 4 ? 4 : ac->a < 4 ? ac->a : g->dest_mode;
	switch(dm) {
		case 1:
			dest = ((r >> 8) & 1) ? (me + 1) % g->n_lps : (me + g->n_lps - 1) % g->n_lps;
			break;
		case 2:
			dest = (r >> 8) % 3 ? 0 : (r >> 12) % g->n_lps;
			break;
		case 3:
			dest = me;
			break;
		case 4: /* drip: LP 0 receives an event only now and then, the rest stays local */
			dest = s->handled % (g->drip_k ? g->drip_k : 3 + g->seed % 13) == 0 ? 0 : ((r >> 8) & 1 || g->n_lps < 2 ? me : 1 + (me % (g->n_lps - 1)));
			break;
		default:
			dest = (r >> 8) % g->n_lps;
	}
	/* type: rule selector | ttl << 3 | flavour << 5 */
	unsigned ttl = type == GM_HB_TYPE || type >= LP_INIT ? 3 : (type >> 3) & 3;
	unsigned ntype = (unsigned)((r >> 20) & 7) | (unsigned)(((r >> 23) & 7) << 5);
	/* payload */
	static __thread unsigned char pl[GM_MAXPL];
	unsigned psz = 0;
	switch(g->payload_mode) {
		case 0:
			psz = 0;
			break;
		case 1:
			psz = (unsigned)((r >> 30) % 33);
			break;
		case 2:
			psz = (unsigned[]){0, 8, 31, 32, 33, 48, 100, 200}[(r >> 30) & 7];
			break;
		default:
			psz = (r >> 30) % 23 == 0 ? GM_MAXPL : (unsigned[]){0, 16, 32, 33, 64, 200, 1, 40}[(r >> 36) & 7];
	}
	uint64_t pr = r ^ s->hash;
	if(g->time_mode == 1)
		pr = (r >> 50) & 3; /* few distinct payloads: ties that only the payload resolves, and full duplicates */
	for(unsigned i = 0; i < psz; i++)
		pl[i] = (unsigned char)(pr >> ((i & 7) * 8)) + (unsigned char)(i >> 3);
	/* payloads longer than the 32 bytes kept inside struct lp_msg: every other one has a constant first part, so that
	 * simultaneous events of equal type and size often differ only in the continuation of the payload */
	int const_prefix = psz > 32 && ((r >> 58) & 1);
	if(const_prefix) {
		for(unsigned i = 0; i < 32; i++)
			pl[i] = (unsigned char)(psz + i);
		ntype &= 7; /* few types, so that such events also tie on the type */
	}
	/* delay */
	double t;
	int zero = ttl > 0 && ((r >> 44) & 255) < g->zero_delay;
	int chain_child = 0;
	if(in_chain) { /* continue the chain at the same timestamp */
		zero = 1;
		chain_child = 1;
		if(psz < 1)
			psz = 1;
		pl[0] = (unsigned char)(chain_left - 1);
		ntype = (ntype & ~0x18u) | GM_CHAIN_FLAG;
		ttl = 1;
	} else if(zero && g->chain_len && ((r >> 60) & 1)) { /* start a chain */
		chain_child = 1;
		if(psz < 1)
			psz = 1;
		pl[0] = g->chain_len;
		ntype |= GM_CHAIN_FLAG;
	}
	unsigned tm = g->time_mode == 2 ? (unsigned)((r >> 52) & 1) : g->time_mode;
	if(zero) {
		t = now;
		if(!chain_child)
			ntype |= (ttl - 1) << 3;
	} else {
		ntype |= const_prefix ? 1u << 3 : (unsigned)(((r >> 26) & 3) << 3);
		if(tm == 1)
			t = floor(now) + 1.0 + (double)((r >> 54) & 1) + (ac->b == 7 ? 0.5 : 0.0);
		else {
			double u = (double)(sm(&s->prng) >> 11) * 0x1p-53;
			double la = g->lookahead_mode == 0 ? 0.0 : g->lookahead_mode == 1 ? 1e-9 : 0.75;
			if(ac->b == 6)
				t = now + la + A(Poisson)() * 0.5; /* library-driven delay */
			else if(g->lookahead_mode == 0 && ((r >> 56) & 7) == 0)
				t = nextafter(now, INFINITY); /* adjacent double */
			else
				t = now + la + u * (ac->b & 1 ? 0.05 : 2.0);
		}
	}
	if(!(t > now)) { /* zero effective delay: legal only if the new event does not precede the one being handled */
		t = now;
		OUT.zero_delay_sent++;
		if(would_precede(t, ntype, psz, pl, now, type, size, content)) {
			t = nextafter(now, INFINITY);
			OUT.zero_delay_bumped++;
		}
	}
	OUT.big_payload_sent += psz > 32;
	s->hash = fold(s->hash, dbits(t) ^ dest ^ ((uint64_t)ntype << 40));
	A(ScheduleNewEvent)(dest, t, ntype, psz ? pl : NULL, psz);
}

void FN(gm_ProcessEvent)(uint64_t me, double now, unsigned type, const void *content, unsigned size, void *st)
{
	const struct gm_spec *g = &gm_spec;
	struct gm_state *s = st;
	struct gm_report *rep = &OUT.rep[me];
	log_dispatch(me, now, type, content, size);
	if(type == LP_INIT) {
		rep->init_calls++;
#ifndef GM_REF
		rep->init_rid = (int16_t)rsv_cur_rid();
		rep->init_rank = (int16_t)rsv_get_rank();
#endif
		if(g->stateless[me]) {
			/* a router: no state of its own; one heartbeat keeps it going */
			A(ScheduleNewEvent)(me, g->time_mode == 1 ? 1.0 : 0.25 + A(Random)(), GM_HB_TYPE, NULL, 0);
			return;
		}
		s = A(rs_malloc)(sizeof *s);
		memset(s, 0, sizeof *s);
		s->prng = fold(g->seed, me * 2654435761u + 1);
		s->hash = fold(me, g->seed);
		s->goal = g->goal[me];
		s->frozen_at = -1.0;
		A(SetState)(s);
		struct gm_act mk = {GA_MEM, 0, 0, 0};
		for(unsigned i = 0; i < g->init_bufs; i++) {
			mk.b = (uint8_t)(sm(&s->prng) % 12);
			mk.a = (uint8_t)(i & 1 ? 3 : 0);
			do_mem(s, &mk);
		}
		if(s->goal == 0 && g->post_goal == 0 && !g->endless)
			s->frozen = 1; /* predicate true at initialisation */
		else if(g->victim_nohb && me == 0 && g->n_lps > 1) {
			/* no heartbeat: whether and when this LP reaches its goal depends on the others alone */
		} else {
			double t0 = g->t0_zero[me] ? 0.0 : (g->time_mode == 1 ? 1.0 : 0.25 + (double)(sm(&s->prng) >> 11) * 0x1p-53);
			A(ScheduleNewEvent)(me, t0, GM_HB_TYPE, NULL, 0);
		}
		struct gm_act sa = {GA_SEND, 0, 0, 0};
		for(unsigned i = 0; i < g->init_sends; i++) {
			uint64_t r = sm(&s->prng);
			unsigned ntype = (unsigned)(r & 7) | (unsigned)(((r >> 3) & 3) << 3);
			double t = g->init_zero || (r >> 8) % 3 == 0 ? 0.0 : g->time_mode == 1 ? (double)(1 + ((r >> 10) & 1)) : (double)((r >> 11) & 0xfffff) * 0x1p-20;
			unsigned char p8[8];
			memcpy(p8, &r, 8);
			unsigned psz = g->payload_mode ? (unsigned)((r >> 40) % 9) : 0;
			A(ScheduleNewEvent)((r >> 32) % g->n_lps, t, ntype, psz ? p8 : NULL, psz);
		}
		(void)sa;
		if(g->stop_lp == (int32_t)me && g->stop_at == 0)
			A(RootsimStop)();
		return;
	}
	if(type == LP_FINI) {
		rep->fini_calls++;
#ifndef GM_REF
		rep->fini_rid = (int16_t)rsv_cur_rid();
		rep->fini_rank = (int16_t)rsv_get_rank();
#endif
		rep->digest = fold(FN(gm_state_digest)(s), A(RandomU64)());
		rep->handled = s ? s->handled : 0;
		rep->goal = s ? s->goal : 0;
		rep->frozen = s ? s->frozen : g->stateless[me];
		rep->pred = s ? s->handled >= s->goal : g->stateless[me];
		rep->frozen_at = s ? s->frozen_at : -2.0;
		return;
	}
	if(!s) {
		/* router: everything it does is a function of its library generator, the only thing a rollback has to put back */
		if(!g->stateless[me] || now >= GM_ROUTER_HORIZON)
			return;
		uint64_t r = A(RandomU64)();
		OUT.lib_draws++;
		if(type == GM_HB_TYPE)
			A(ScheduleNewEvent)(me, g->time_mode == 1 ? now + 1.0 : now + 0.5 + A(Random)(), GM_HB_TYPE, NULL, 0);
		if((r & 255) < g->send_prob) {
			unsigned char pl8[8];
			memcpy(pl8, &r, 8);
			unsigned psz = g->payload_mode ? (unsigned)((r >> 40) % 9) : 0;
			double t = g->time_mode == 1 ? floor(now) + 1.0 + (double)((r >> 54) & 1) : now + 0.05 + A(Random)() * 1.5;
			A(ScheduleNewEvent)((r >> 8) % g->n_lps, t, (unsigned)((r >> 20) & 7) | (unsigned)(((r >> 23) & 7) << 5), psz ? pl8 : NULL, psz);
		}
		return;
	}
	if(s->frozen)
		return; /* state frozen once the predicate holds: nothing changes, nothing is sent */

	/* events of zero-delay chains change the state (order-sensitive hash) but do not count towards the goal, so that
	 * long chains do not freeze the LPs at once */
	int is_chain = type < LP_INIT && type != GM_HB_TYPE && (type & GM_CHAIN_FLAG);
	s->handled += !is_chain;
	s->hash = fold(fold(s->hash, dbits(now)), ((uint64_t)type << 32) | size);
	s->hash = fold_bytes(s->hash, content, size);

	if(type == GM_HB_TYPE)
		s->relays = g->relay_budget;
	else if(s->relays && !is_chain && (sm(&s->prng) & 1)) {
		/* relay the event unchanged, zero delay: the copy is order-equivalent to the event being handled (valid: it does
		 * not precede it), whoever receives it */
		s->relays--;
		uint64_t r = sm(&s->prng);
		OUT.zero_delay_sent++;
		s->hash = fold(s->hash, 0x4e1a7 + (r >> 8) % g->n_lps);
		A(ScheduleNewEvent)((r >> 8) % g->n_lps, now, type, content, size);
	}
	if(type == GM_HB_TYPE && (g->endless || s->handled < s->goal + g->post_goal)) {
		double d = g->time_mode == 1 ? 1.0 : 0.5 + (double)(sm(&s->prng) >> 11) * 0x1p-53;
		if(g->hb_scale > 1)
			d *= g->time_mode == 1 ? g->hb_scale : g->hb_scale * (0.2 + (double)(sm(&s->prng) >> 40) * 0x1p-23);
		A(ScheduleNewEvent)(me, now + d, GM_HB_TYPE, NULL, 0);
	}
	if(type == GM_HB_TYPE && g->chain_len && g->chain_start) {
		/* every LP may start a zero-delay chain at its tick: with grid time many chains then run at the same timestamp
		 * on different threads and meet at the same LPs in an order that only the tie-break decides */
		uint64_t r = sm(&s->prng);
		if((r & 255) < g->chain_start) {
			unsigned char cp[4] = {g->chain_len, (unsigned char)me, (unsigned char)(r >> 8), 0};
			unsigned ctype = (unsigned)((r >> 16) & 7) | (unsigned)(((r >> 19) & 7) << 5) | GM_CHAIN_FLAG;
			double ct = now;
			OUT.zero_delay_sent++;
			if(would_precede(ct, ctype, 3, cp, now, type, size, content)) {
				ct = nextafter(now, INFINITY);
				OUT.zero_delay_bumped++;
			}
			s->hash = fold(s->hash, dbits(ct) ^ ctype);
			A(ScheduleNewEvent)((r >> 24) % g->n_lps, ct, ctype, cp, 3);
		}
	}
	const struct gm_rule *rule = &g->rules[type % g->n_rules];
	unsigned n_send = 0;
	for(unsigned i = 0; i < rule->n_act; i++) {
		const struct gm_act *ac = &rule->act[i];
		switch(ac->kind) {
			case GA_SEND:
				do_send(me, s, ac, now, type, content, size, n_send++);
				break;
			case GA_MEM:
				do_mem(s, ac);
				break;
			case GA_DRAW:
				do_draw(s, ac);
				break;
			default:
				break;
		}
	}
	if(g->stop_lp == (int32_t)me && g->stop_at == s->handled && !is_chain)
		A(RootsimStop)();
	if(!g->endless && s->handled >= s->goal + g->post_goal) {
		s->frozen = 1;
		s->frozen_at = now;
	}
}

bool FN(gm_CanEnd)(uint64_t me, const void *snapshot)
{
	const struct gm_state *s = snapshot;
	if(!s)
		return gm_spec.stateless[me] != 0; /* routers have no state: their predicate holds from the start */
	return s->handled >= s->goal; /* monotone; with post_goal == 0 it coincides with the freeze */
}
