/* Reference executor: a textbook sequential event-list simulation, independent of serial.c, heap.h, process.c,
 * msg_queue.c, the buddy allocator and the GVT code.  It shares with the tree only (a) the definition of the
 * event order (msg_is_before from lp/msg.h - the properties leave its direction to the runtime, C16 checks its
 * shape) and (b) the numerical library (random.c, judged by C18). */
#include <math.h>
#include <stdio.h>
#include <stdlib.h>
#include <string.h>

#include <ROOT-Sim.h>
#include <core/core.h>
#include <lib/random/random.h>
#include <lp/lp.h>
#include <lp/msg.h>

#include "refexec.h"

static struct lp_ctx ref_lpctx[GM_MAXLP];
static struct rng_ctx ref_rng[GM_MAXLP];
static void *ref_state[GM_MAXLP];
static unsigned cur_lp;
static struct lp_msg *cur_msg;
static struct lp_msg **pend;
static size_t pend_n, pend_cap, pend_max, pend_head;
static struct ref_result *RR;
static int stop_called;
static const struct gm_spec *SP;

static struct lp_msg *mkmsg(uint64_t dest, double t, unsigned type, const void *pl, unsigned size)
{
	struct lp_msg *m = malloc(sizeof *m + (size > MSG_PAYLOAD_BASE_SIZE ? size - MSG_PAYLOAD_BASE_SIZE : 0));
	memset(m, 0, sizeof *m);
	m->dest = dest;
	m->dest_t = t;
	m->raw_flags = 0;
	m->m_type = type;
	m->pl_size = size;
	if(size)
		memcpy(m->pl, pl, size);
	return m;
}

void ref_ScheduleNewEvent(uint64_t receiver, double timestamp, unsigned type, const void *content, unsigned size)
{
	struct lp_msg *m = mkmsg(receiver, timestamp, type, content, size);
	/* API contract (ROOT-Sim.h, debug assertions of process.c/serial.c): a generator bug if violated */
	if(receiver >= SP->n_lps || type >= LP_INIT || !isfinite(timestamp) || msg_is_before(m, cur_msg)) {
		if(!RR->contract_breaches++)
			snprintf(RR->breach, sizeof RR->breach, "lp %u handling (t=%a type=%u size=%u) scheduled (dest=%llu t=%a type=%u size=%u)", cur_lp,
			    cur_msg->dest_t, cur_msg->m_type, cur_msg->pl_size, (unsigned long long)receiver, timestamp, type, size);
	}
	if(receiver >= SP->n_lps) { /* generator bug: never deliver to a non-existent LP */
		free(m);
		return;
	}
	if(timestamp == cur_msg->dest_t && cur_msg->m_type != LP_INIT)
		RR->zero_delay++;
#ifndef NDEBUG
	m->send = cur_lp; /* used below to tell self-scheduled zero-delay events */
#endif
	/* sorted insertion after all elements that are not after the new one (stable) */
	size_t lo = pend_head, hi = pend_n; /* entries before pend_head are consumed */
	while(lo < hi) {
		size_t mid = (lo + hi) / 2;
		if(msg_is_before(m, pend[mid]))
			hi = mid;
		else
			lo = mid + 1;
	}
	if(pend_n == pend_cap) {
		pend_cap = pend_cap ? pend_cap * 2 : 256;
		pend = realloc(pend, pend_cap * sizeof *pend);
	}
	memmove(&pend[lo + 1], &pend[lo], (pend_n - lo) * sizeof *pend);
	pend[lo] = m;
	pend_n++;
	if(pend_n - pend_head > pend_max)
		pend_max = pend_n - pend_head;
}

void ref_SetState(void *s)
{
	ref_state[cur_lp] = s;
}
void *ref_rs_malloc(size_t n)
{
	if(!n || n > 65536)
		return NULL;
	return malloc(n);
}
void *ref_rs_calloc(size_t nmemb, size_t size)
{
	if(size && nmemb > SIZE_MAX / size)
		return NULL;
	size_t t = nmemb * size;
	if(!t || t > 65536)
		return NULL;
	return calloc(1, t);
}
void ref_rs_free(void *p)
{
	free(p);
}
void *ref_rs_realloc(void *p, size_t n)
{
	if(!n)
		return NULL;
	if(!p)
		return ref_rs_malloc(n);
	if(n > 65536)
		return NULL;
	return realloc(p, n);
}
#define WITH_LP(expr)                                                                                                  \
	struct lp_ctx *save = current_lp;                                                                              \
	current_lp = &ref_lpctx[cur_lp];                                                                               \
	__typeof__(expr) r_ = (expr);                                                                                  \
	current_lp = save;                                                                                             \
	return r_;
double ref_Random(void)
{
	WITH_LP(Random());
}
uint64_t ref_RandomU64(void)
{
	WITH_LP(RandomU64());
}
double ref_Poisson(void)
{
	WITH_LP(Poisson());
}
double ref_Normal(void)
{
	WITH_LP(Normal());
}
int ref_RandomRange(int min, int max)
{
	WITH_LP(RandomRange(min, max));
}
int ref_RandomRangeNonUniform(int x, int min, int max)
{
	WITH_LP(RandomRangeNonUniform(x, min, max));
}
double ref_Gamma(unsigned ia)
{
	WITH_LP(Gamma(ia));
}
unsigned ref_Zipf(double skew, unsigned limit)
{
	WITH_LP(Zipf(skew, limit));
}
void ref_RootsimStop(void)
{
	stop_called = 1;
}

static uint64_t plh(const void *p, size_t n)
{
	const unsigned char *c = p;
	uint64_t h = 1469598103934665603ULL;
	for(size_t i = 0; i < n; i++)
		h = (h ^ c[i]) * 0x100000001b3ULL;
	return h ^ (h >> 29);
}

static void record(struct ref_result *out, unsigned lp, const struct lp_msg *m)
{
	struct ref_ev e = {.lp = lp, .type = m->m_type, .size = m->pl_size, .t = m->dest_t, .plhash = plh(m->pl, m->pl_size),
	    .digest_after = ref_gm_state_digest(ref_state[lp])};
	if((out->seq_n[lp] & (out->seq_n[lp] + 1)) == 0 || !out->seq[lp])
		out->seq[lp] = realloc(out->seq[lp], (2 * (out->seq_n[lp] + 1)) * sizeof e);
	/* tie statistics against the previous delivery to the same LP */
	if(out->seq_n[lp]) {
		const struct ref_ev *p = &out->seq[lp][out->seq_n[lp] - 1];
		if(p->t == e.t && p->type != LP_INIT) {
			if(p->type == e.type && p->size == e.size && p->plhash == e.plhash)
				out->identical_ties++;
			else
				out->tie_groups++;
		}
	}
	out->seq[lp][out->seq_n[lp]++] = e;
	if(m->m_type != LP_INIT) {
		if((out->global_n & (out->global_n + 1)) == 0 || !out->global)
			out->global = realloc(out->global, (2 * (out->global_n + 1)) * sizeof e);
		out->global[out->global_n++] = e;
	}
}

void refexec_run(const struct gm_spec *spec, uint64_t prng_seed, struct ref_result *out, size_t max_events)
{
	memset(out, 0, sizeof *out);
	RR = out;
	SP = spec;
	pend_n = pend_max = pend_head = 0;
	stop_called = 0;
	out->stop_time = INFINITY;
	memset(&ref_gm_out, 0, sizeof ref_gm_out);
	uint64_t save_seed = global_config.prng_seed;
	global_config.prng_seed = prng_seed;
	for(unsigned i = 0; i < spec->n_lps; i++) {
		ref_lpctx[i].rng_ctx = &ref_rng[i];
		{ /* the runtime calls it from lp_init() with current_lp set: keep that precondition */
			struct lp_ctx *save_lp = current_lp;
			current_lp = &ref_lpctx[i];
			random_lib_lp_init(i, &ref_rng[i]);
			current_lp = save_lp;
		}
		ref_state[i] = NULL;
		out->tau[i] = INFINITY;
	}
	for(unsigned i = 0; i < spec->n_lps; i++) {
		struct lp_msg *im = mkmsg(i, 0.0, LP_INIT, NULL, 0);
		cur_lp = i;
		cur_msg = im;
		ref_gm_ProcessEvent(i, 0.0, LP_INIT, NULL, 0, NULL);
		record(out, i, im);
		if(ref_gm_CanEnd(i, ref_state[i])) {
			out->tau[i] = -1.0;
			out->digest_at_tau[i] = ref_gm_state_digest(ref_state[i]);
		}
		if(stop_called && out->stop_time == INFINITY) {
			out->stop_time = -1.0;
			out->stop_index = 0;
		}
		free(im);
	}
	size_t horizon_at = 0;
	while(pend_head < pend_n) {
		if(out->total_events >= max_events) {
			out->truncated = 1;
			break;
		}
		if(spec->endless) { /* stop 2000 events after the last predicate became true */
			if(!horizon_at) {
				int all = 1;
				for(unsigned i = 0; i < spec->n_lps; i++)
					all &= out->tau[i] != INFINITY;
				if(all)
					horizon_at = out->total_events + 2000;
			} else if(out->total_events >= horizon_at) {
				out->horizon = 1;
				break;
			}
		}
		struct lp_msg *m = pend[pend_head++];
		if(pend_head > 4096 && pend_head * 2 > pend_n) { /* compact */
			memmove(pend, pend + pend_head, (pend_n - pend_head) * sizeof *pend);
			pend_n -= pend_head;
			pend_head = 0;
		}
		unsigned lp = (unsigned)m->dest;
		cur_lp = lp;
		cur_msg = m;
		ref_gm_ProcessEvent(lp, m->dest_t, m->m_type, m->pl, m->pl_size, ref_state[lp]);
		record(out, lp, m);
		out->total_events++;
		out->last_time = m->dest_t;
		if(out->tau[lp] == INFINITY && ref_gm_CanEnd(lp, ref_state[lp])) {
			out->tau[lp] = m->dest_t;
			out->tau_global[lp] = out->total_events;
			out->digest_at_tau[lp] = ref_gm_state_digest(ref_state[lp]);
		}
		if(out->tau[lp] != INFINITY && !out->own_after[lp])
			out->own_after[lp] = out->total_events;
		if(stop_called && out->stop_time == INFINITY) {
			out->stop_time = m->dest_t;
			out->stop_index = out->total_events;
		}
		free(m);
	}
	for(size_t i = pend_head; i < pend_n; i++)
		free(pend[i]);
	pend_n = pend_head = 0;
	out->max_pending = pend_max;
	for(unsigned i = 0; i < spec->n_lps; i++) {
		cur_lp = i;
		ref_gm_ProcessEvent(i, 0, LP_FINI, NULL, 0, ref_state[i]);
		out->fini_digest[i] = ref_gm_out.rep[i].digest;
	}
	out->contract_breaches += ref_gm_out.contract_breaches;
	global_config.prng_seed = save_seed;
}

void refexec_free(struct ref_result *r)
{
	for(unsigned i = 0; i < GM_MAXLP; i++)
		free(r->seq[i]);
	free(r->global);
	memset(r, 0, sizeof *r);
}
