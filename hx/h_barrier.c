/* C17: thread barrier - nobody passes early, exactly one leader per use, reusable immediately and indefinitely.
 * Real code under test: core/sync.c.  Threads are virtual threads of the DET scheduler (yield points inside both spin
 * loops and before the read-modify-write) or real perturbed threads (FREE). */
#include <stdatomic.h>
#include <stdlib.h>
#include <string.h>
#include <unistd.h>

#include <core/core.h>
#include <core/sync.h>
#include <verif/rsv.h>

#include "rsv_case.h"
#include "rsv_rt.h"

const char *rsv_harness_name = "h_barrier";
int rsv_fork_mode = 1; /* the barrier keeps static and thread-local state */
unsigned rsv_default_tape_len = 40;
const char *rsv_rule =
    "tape -> thread count 1..6 (DET) / 1..16 (FREE), consecutive uses 1..12 (DET) / up to 20000 (FREE), schedule (seed, "
    "switch rate, starvation bursts so that a fast thread re-enters the next use while slow ones are still leaving); "
    "oracle: at every return of use k all threads have entered use k; exactly one thread is told it is the leader in "
    "every use; the run completes under a fair scheduler (bounded liveness); non-trivial = >=2 threads and >=2 uses and "
    "some thread entered use k+1 before another left use k; distinct = hash of (threads, uses, schedule)";
enum { CL_THREADS, CL_USES, CL_EARLY_REENTRY, CL_DET, CL_FREE, CL_STEPS };
const char *rsv_class_names[RSV_NCLS] = {"threads", "uses", "reentry_while_others_leaving", "runs_DET", "runs_FREE", "scheduler_steps"};

#define MAXN 16
#define MAXU 20000
static unsigned N, U;
static _Atomic unsigned entered[MAXU + 1], left[MAXU + 1], leaders[MAXU + 1];
static _Atomic unsigned early_pass, reentry;
static _Atomic unsigned bad_use;
static struct rsv_result *R;
extern void rsv_emit_and_exit(const struct rsv_result *r) __attribute__((weak));

static void on_hang(const char *why)
{
	char sig[300] = "";
	size_t o = 0;
	for(int i = 1; i < rsv_nthreads_created() && o + 40 < sizeof sig; i++)
		o += (size_t)snprintf(sig + o, sizeof sig - o, "[thr%d %s site=%d]", i, rsv_thread_done(i) ? "done" : "live", rsv_last_site(i));
	if(!strcmp(why, "budget")) {
		R->verdict = RSV_INCONCLUSIVE;
		snprintf(R->msg, sizeof R->msg, "step budget exhausted (inconclusive)");
	} else
		rsv_fail(R, "C17", "the barrier never released its threads (%s) with %u threads in use %u: %s", why, N, atomic_load(&bad_use), sig);
	if(rsv_emit_and_exit)
		rsv_emit_and_exit(R);
	_exit(78);
}

static void *worker(void *arg)
{
	(void)arg;
	for(unsigned k = 0; k < U; k++) {
		if(k && atomic_load(&left[k - 1]) < N)
			atomic_fetch_add(&reentry, 1); /* we re-enter while somebody has not yet left the previous use */
		atomic_fetch_add(&entered[k], 1);
		atomic_store(&bad_use, k);
		bool l = sync_thread_barrier();
		if(atomic_load(&entered[k]) != N)
			atomic_fetch_add(&early_pass, 1);
		if(l)
			atomic_fetch_add(&leaders[k], 1);
		atomic_fetch_add(&left[k], 1);
	}
	return NULL;
}

int rsv_case(const uint8_t *tape, size_t len, struct rsv_result *res)
{
	struct tape T = {tape, len, 0}, *t = &T;
	R = res;
	int free_mode = getenv("RSV_FREE") && atoi(getenv("RSV_FREE"));
	struct rsv_sched sc;
	memset(&sc, 0, sizeof sc);
	if(free_mode) {
		N = 1 + (1 + t_choice(t, 16)) % 16;
		U = (unsigned[]){200, 2, 1000, 5000, 20000, 50}[t_choice(t, 6)];
		if(getenv("RSV_QUICK")) { /* spinning barriers with more threads than idle cores crawl */
			if(U > 500)
				U = 500;
			if(N > 8)
				N = 1 + N % 8;
		}
		sc.mode = RSV_MODE_FREE;
		sc.free_perturb_per_1024 = (unsigned[]){0, 30, 300}[t_choice(t, 3)];
	} else {
		N = 1 + (1 + t_choice(t, 6)) % 6;
		U = 1 + (1 + t_choice(t, 12)) % 12;
		sc.mode = RSV_MODE_DET;
		sc.switch_per_1024 = (unsigned[]){64, 8, 300, 800}[t_choice(t, 4)];
		sc.burst_per_64k = (unsigned[]){0, 300, 3000, 30}[t_choice(t, 4)];
		sc.burst_max = (unsigned[]){40, 400, 5}[t_choice(t, 3)];
		sc.hot_sites = t_prob(t, 128) ? (1U << RSV_SITE_BARRIER_ENTER) : 0;
		sc.budget = 3000000;
		sc.noprogress = 1000000; /* no trace events in this harness: the budget decides, then the fair scheduler confirms */
	}
	sc.seed = t_u32(t);
	res->cls[CL_THREADS] = N;
	res->cls[CL_USES] = U;
	res->cls[free_mode ? CL_FREE : CL_DET] = 1;
	rsv_sample(res, "%s threads=%u uses=%u seed=%llu sw=%u burst=%u/%u hot=%#x", free_mode ? "FREE" : "DET", N, U,
	    (unsigned long long)sc.seed, sc.switch_per_1024, sc.burst_per_64k, sc.burst_max, sc.hot_sites);
	global_config.n_threads = N;
	rsv_rt_init(&sc);
	rsv_on_hang = on_hang;
	for(unsigned i = 0; i < N; i++)
		rsv_spawn(worker, NULL);
	rsv_join_all();
	rsv_on_hang = NULL;
	res->cls[CL_STEPS] = rsv_steps();
	res->cls[CL_EARLY_REENTRY] = atomic_load(&reentry);
	if(atomic_load(&early_pass))
		rsv_fail(res, "C17", "%u returns from the barrier happened before all %u threads had entered that use", atomic_load(&early_pass), N);
	for(unsigned k = 0; k < U; k++)
		if(atomic_load(&leaders[k]) != 1) {
			rsv_fail(res, "C17", "use %u of the barrier elected %u leaders (threads=%u)", k, atomic_load(&leaders[k]), N);
			break;
		}
	res->nontrivial = N >= 2 && U >= 2 && atomic_load(&reentry) > 0;
	res->fingerprint = rsv_mix(rsv_mix(N * 100003 + U, sc.seed), sc.switch_per_1024 * 31 + sc.burst_per_64k + sc.free_perturb_per_1024);
	return res->verdict;
}
