/* Hook runtime: deterministic baton scheduler (DET), perturbed real threads (FREE), trace buffer. */
#ifndef RSV_RT_H
#define RSV_RT_H
#include <stdint.h>
#include <stddef.h>

enum rsv_mode { RSV_MODE_OFF = 0, RSV_MODE_DET = 1, RSV_MODE_FREE = 2 };

struct rsv_sched {
	int mode;
	uint64_t seed;
	unsigned switch_per_1024;  /* probability of leaving the running thread at an ordinary yield */
	unsigned burst_per_64k;    /* probability (per yield) of starting a starvation burst */
	unsigned burst_max;        /* maximum burst length in yields */
	uint32_t hot_sites;        /* bitmask of sites at which the switch probability is 1/2 (PCT-like change points) */
	uint64_t budget;           /* step budget (DET) */
	uint64_t noprogress;       /* steps without a trace event that count as a hang (DET) */
	unsigned clock_div;        /* virtual microsecond = steps / clock_div */
	unsigned free_perturb_per_1024; /* FREE: probability of a perturbation at a yield */
	double stuck_cpu_s;        /* DET watchdog: CPU seconds without a scheduling point that count as a hang (default 12) */
	unsigned batch;            /* messages attempted between two GVT steps of a worker (0: the core's own constant, 64) */
};

#define RSV_MAXT 64

struct rsv_rec {
	uint64_t seq;
	uint16_t kind;
	int16_t thr;  /* virtual thread index (creation order; 0 = main) */
	int16_t rid;  /* the core's thread id of the worker (-1 for a main thread) */
	int16_t rank;
	const void *p;
	uint64_t a, b;
	double t;
	/* snapshot of the message p points to (message events only) */
	uint64_t m_dest;
	double m_t;
	uint32_t m_type, m_size, m_flags, m_seq, tag;
	uint64_t m_plhash;
};

extern void rsv_rt_init(const struct rsv_sched *cfg);
extern void rsv_trace_enable(size_t max_records);
extern struct rsv_rec *rsv_trace;
extern size_t rsv_trace_n(void);
extern int rsv_trace_overflow(void);
extern uint64_t rsv_steps(void);
extern uint64_t rsv_switches(void);
extern uint64_t rsv_rand(void);
extern int rsv_cur_thread(void);
extern int rsv_cur_rid(void);
extern int rsv_nthreads_created(void);
extern void rsv_set_rank(int rank);
extern int rsv_get_rank(void);
/* last site / stage per virtual thread, for hang signatures */
extern int rsv_last_site(int thr);
extern int rsv_last_stage(int thr);
extern int rsv_thread_done(int thr);
extern int rsv_thread_rid(int thr);
extern int rsv_thread_rank(int thr);
/* harness call-backs */
extern void (*rsv_on_hang)(const char *why);                       /* must not return */
extern void (*rsv_ev_callback)(const struct rsv_rec *r);           /* called for every trace event */
extern void (*rsv_yield_callback)(int site, int thr);               /* called at every scheduling point (before the switch) */
/* generic virtual threads for component harnesses (queue, barrier) */
extern int rsv_spawn(void *(*fn)(void *), void *arg);
extern void rsv_join_all(void);
static inline uint64_t rsv_plhash(const void *p, size_t n)
{
	const unsigned char *c = (const unsigned char *)p;
	uint64_t h = 1469598103934665603ULL;
	for(size_t i = 0; i < n; i++)
		h = (h ^ c[i]) * 0x100000001b3ULL;
	return h ^ (h >> 29);
}
#endif
