/* E4 (multi-rank in one process): every rank is a renamed copy (prefix r<k>_) of the core's objects.
 * The model and the harness reach "their" rank's API through these dispatchers, selected by the rank id that the
 * virtual-thread runtime keeps per thread (inherited from the creating thread). */
#ifndef E4_API_H
#define E4_API_H
#include <ROOT-Sim.h>

#define E4_MAXR 4
#define E4_RANKS(X) X(0) X(1) X(2) X(3)

struct lp_ctx;
#define E4_DECL(k)                                                                                                     \
	extern void r##k##_ScheduleNewEvent(lp_id_t, simtime_t, unsigned, const void *, unsigned);                     \
	extern void r##k##_SetState(void *);                                                                           \
	extern void *r##k##_rs_malloc(size_t);                                                                         \
	extern void *r##k##_rs_calloc(size_t, size_t);                                                                 \
	extern void r##k##_rs_free(void *);                                                                            \
	extern void *r##k##_rs_realloc(void *, size_t);                                                                \
	extern double r##k##_Random(void);                                                                             \
	extern uint64_t r##k##_RandomU64(void);                                                                        \
	extern double r##k##_Poisson(void);                                                                            \
	extern double r##k##_Normal(void);                                                                             \
	extern int r##k##_RandomRange(int, int);                                                                       \
	extern int r##k##_RandomRangeNonUniform(int, int, int);                                                        \
	extern double r##k##_Gamma(unsigned);                                                                          \
	extern unsigned r##k##_Zipf(double, unsigned);                                                                 \
	extern void r##k##_RootsimStop(void);                                                                          \
	extern int r##k##_RootsimInit(const struct simulation_configuration *);                                        \
	extern int r##k##_RootsimRun(void);                                                                            \
	extern struct lp_ctx *r##k##_lps;
E4_RANKS(E4_DECL)

extern int rsv_get_rank(void);

extern void e4_ScheduleNewEvent(lp_id_t, simtime_t, unsigned, const void *, unsigned);
extern void e4_SetState(void *);
extern void *e4_rs_malloc(size_t);
extern void *e4_rs_calloc(size_t, size_t);
extern void e4_rs_free(void *);
extern void *e4_rs_realloc(void *, size_t);
extern double e4_Random(void);
extern uint64_t e4_RandomU64(void);
extern double e4_Poisson(void);
extern double e4_Normal(void);
extern int e4_RandomRange(int, int);
extern int e4_RandomRangeNonUniform(int, int, int);
extern double e4_Gamma(unsigned);
extern unsigned e4_Zipf(double, unsigned);
extern void e4_RootsimStop(void);
extern int e4_RootsimInit(int rank, const struct simulation_configuration *);
extern int e4_RootsimRun(int rank);
extern struct lp_ctx *e4_lps(int rank);
#endif
