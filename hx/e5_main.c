/* E5: real-MPI smoke test (thorough tier of C02 only).  One process per rank under `mpiexec`, real OpenMPI, real
 * threads, core built WITHOUT hooks (-O2 -DNDEBUG: the configuration of the pinned tests).  Black-box end-state
 * comparison: every rank runs the reference executor (deterministic, identical on all ranks), then the runtime, and
 * compares the LP_FINI digests of the LPs it hosts.  It shows that what the in-process MPI of E4 finds transfers to a
 * real MPI library; schedules are not explored here (the OS and OpenMPI choose them).
 *
 *   mpiexec -n R e5 <seed> <threads-per-rank>     exit 0: all local digests equal the reference; 1: mismatch
 */
#include <math.h>
#include <stdio.h>
#include <stdlib.h>
#include <string.h>

#include <ROOT-Sim.h>

#include "gm_model.h"
#include "refexec.h"

/* the model asks the hook runtime who is calling; not available (and not needed) here */
int rsv_cur_rid(void)
{
	return 0;
}
int rsv_get_rank(void)
{
	return 0;
}

static uint64_t sm(uint64_t *s)
{
	uint64_t z = (*s += 0x9e3779b97f4a7c15ULL);
	z = (z ^ (z >> 30)) * 0xbf58476d1ce4e5b9ULL;
	z = (z ^ (z >> 27)) * 0x94d049bb133111ebULL;
	return z ^ (z >> 31);
}

int main(int argc, char **argv)
{
	if(argc < 3) {
		fprintf(stderr, "usage: e5 <seed> <threads>\n");
		return 2;
	}
	uint64_t s = strtoull(argv[1], NULL, 10) * 0x9e3779b97f4a7c15ULL + 77;
	unsigned threads = (unsigned)atoi(argv[2]);
	struct gm_spec *g = &gm_spec;
	memset(g, 0, sizeof *g);
	g->n_lps = 8 + (unsigned)(sm(&s) % 17);
	g->seed = sm(&s);
	g->time_mode = (uint8_t)(sm(&s) % 3);
	g->lookahead_mode = (uint8_t)(sm(&s) % 3);
	g->zero_delay = (uint8_t[]){0, 20, 60, 120}[sm(&s) % 4];
	g->send_prob = (uint8_t[]){110, 60, 150}[sm(&s) % 3];
	g->dest_mode = (uint8_t)(sm(&s) % 3); /* uniform / ring / hot spot: plenty of cross-rank traffic */
	g->payload_mode = (uint8_t)(sm(&s) % 4);
	g->hb_scale = 1;
	g->chain_len = (uint8_t[]){0, 12, 40}[sm(&s) % 3];
	g->chain_start = (uint8_t[]){0, 160}[sm(&s) % 2];
	g->relay_budget = (uint8_t)(sm(&s) % 3);
	g->n_rules = (uint8_t)(2 + sm(&s) % 6);
	for(unsigned r = 0; r < g->n_rules; r++) {
		g->rules[r].n_act = (uint8_t)(1 + sm(&s) % 3);
		unsigned sends = 0;
		for(unsigned a = 0; a < g->rules[r].n_act; a++) {
			struct gm_act *ac = &g->rules[r].act[a];
			unsigned k = (unsigned)(sm(&s) % 5);
			ac->kind = k < 2 ? GA_SEND : k == 2 ? GA_MEM : GA_DRAW;
			if(ac->kind == GA_SEND && (++sends > 1 && g->send_prob > 120))
				ac->kind = GA_MEM;
			ac->a = (uint8_t)sm(&s);
			ac->b = (uint8_t)sm(&s);
			ac->c = (uint8_t)sm(&s);
		}
	}
	for(unsigned i = 0; i < g->n_lps; i++) {
		unsigned m = (unsigned)(sm(&s) % 10);
		g->goal[i] = m == 0 ? 0 : m == 1 ? 1 : (uint16_t)(150 + sm(&s) % 400);
		g->t0_zero[i] = m == 1;
	}
	g->init_sends = (uint8_t)(sm(&s) % 3);
	g->init_bufs = (uint8_t)(sm(&s) % 3);
	g->stop_lp = -1;
	uint64_t prng_seed = sm(&s);

	static struct ref_result ref;
	refexec_run(g, prng_seed, &ref, 2000000);
	if(ref.truncated || ref.contract_breaches) {
		fprintf(stderr, "e5: generator produced an invalid model (%s)\n", ref.breach);
		return 0; /* discard */
	}
	memset(&gm_out, 0, sizeof gm_out);
	struct simulation_configuration conf = {.lps = g->n_lps, .n_threads = threads, .termination_time = 0,
	    .gvt_period = (unsigned[]){1000, 100, 10000}[sm(&s) % 3], .log_level = LOG_SILENT, .stats_file = NULL,
	    .ckpt_interval = (unsigned[]){0, 1, 5, 64}[sm(&s) % 4], .prng_seed = prng_seed, .core_binding = false, .serial = false,
	    .dispatcher = (ProcessEvent_t)gm_ProcessEvent, .committed = (CanEnd_t)gm_CanEnd};
	if(RootsimInit(&conf))
		return 2;
	int rc = RootsimRun();
	if(rc) {
		printf("E5-FAIL RootsimRun returned %d\n", rc);
		return 1;
	}
	int bad = 0, mine = 0;
	for(unsigned i = 0; i < g->n_lps; i++) {
		if(!gm_out.rep[i].fini_calls)
			continue; /* hosted by another rank */
		mine++;
		if(gm_out.rep[i].init_calls != 1 || gm_out.rep[i].fini_calls != 1) {
			printf("E5-FAIL LP %u: LP_INIT %u times, LP_FINI %u times\n", i, gm_out.rep[i].init_calls, gm_out.rep[i].fini_calls);
			bad = 1;
		}
		if(gm_out.rep[i].digest != ref.fini_digest[i]) {
			printf("E5-FAIL LP %u: final state differs from the sequential execution (%016llx vs %016llx, handled %u of %u)\n", i,
			    (unsigned long long)gm_out.rep[i].digest, (unsigned long long)ref.fini_digest[i], gm_out.rep[i].handled, gm_out.rep[i].goal);
			bad = 1;
		}
	}
	printf("E5-RANK lps=%u hosted=%d ref_events=%zu %s\n", g->n_lps, mine, ref.total_events, bad ? "MISMATCH" : "ok");
	return bad;
}
