/* C18: numerical library contracts for every generator state.
 * Real code under test: lib/random/random.c (+ xoroshiro.h, xxtea.c). The LP context is a mock: three LP
 * contexts with their own generator state; the calling LP is chosen by the case. */
#include <limits.h>
#include <math.h>
#include <stdlib.h>
#include <string.h>

#include <core/core.h>
#include <lib/random/random.h>
#include <lp/lp.h>

#include "rsv_case.h"

const char *rsv_harness_name = "h_numeric";
int rsv_fork_mode = 0;
unsigned rsv_default_tape_len = 64;
const char *rsv_rule =
    "tape -> (function, arguments in the domain used by the repository's callers/tests, generator state whose first "
    "1..3 raw outputs are crafted by inverting the xoshiro output function: 0, 1, 2^k, 2^k+-1, 2^64-1, exponent-boundary "
    "neighbours, or random); oracle: range/finite/non-negative contracts, identical result when repeated from the "
    "same state, the caller's state equals k steps of an independent xoshiro256** reference, other LPs' states "
    "byte-identical, UBSan/ASan silent; non-trivial = first raw output is a boundary value; distinct = hash of "
    "(function, argument class, crafted raw outputs)";
enum { CL_RANDOM, CL_RANGE, CL_NONUNI, CL_EXPENT, CL_GAMMA_LO, CL_GAMMA_HI, CL_ZIPF, CL_NORMAL, CL_U64, CL_RAW0, CL_RAW1,
	CL_RAWMAX, CL_RAWPOW2, CL_NEGMIN, CL_DRAWS };
const char *rsv_class_names[RSV_NCLS] = {"fn_Random", "fn_RandomRange", "fn_RandomRangeNonUniform", "fn_Expent",
    "fn_Gamma_lt6", "fn_Gamma_ge6", "fn_Zipf", "fn_Normal", "fn_RandomU64", "raw_first_is_0", "raw_first_is_1",
    "raw_first_is_2^64-1", "raw_first_is_2^k_or_neighbour", "negative_min", "raw_draws_consumed"};

static struct lp_ctx mock_lps[3];
static struct rng_ctx mock_rng[3];

static inline uint64_t rotl64(uint64_t x, int k)
{
	return (x << k) | (x >> (64 - k));
}
static inline uint64_t rotr64(uint64_t x, int k)
{
	return (x >> k) | (x << (64 - k));
}
/* independent xoshiro256** reference */
static uint64_t ref_next(uint64_t s[4])
{
	uint64_t result = rotl64(s[1] * 5, 7) * 9;
	uint64_t t = s[1] << 17;
	s[2] ^= s[0];
	s[3] ^= s[1];
	s[1] ^= s[2];
	s[0] ^= s[3];
	s[2] ^= t;
	s[3] = rotl64(s[3], 45);
	return result;
}
#define INV5 0xCCCCCCCCCCCCCCCDULL
#define INV9 0x8E38E38E38E38E39ULL
static uint64_t s1_for(uint64_t raw)
{
	return INV5 * rotr64(INV9 * raw, 7);
}

static uint64_t boundary(struct tape *t, int *kind)
{
	unsigned c = t_choice(t, 12);
	*kind = c;
	unsigned k = t_choice(t, 64);
	switch(c) {
		case 0:
			return 0;
		case 1:
			return 1;
		case 2:
			return UINT64_MAX;
		case 3:
			return 1ULL << k;
		case 4:
			return (1ULL << k) - 1;
		case 5:
			return (1ULL << k) + 1;
		case 6:
			return UINT64_MAX - (1ULL << k);
		case 7:
			return (1ULL << k) | (1ULL << t_choice(t, 64));
		case 8:
			return 2;
		case 9:
			return UINT64_MAX - 1;
		case 10:
			return UINT64_MAX << k;
		default:
			return t_u64(t);
	}
}

void rsv_setup(const char *prop)
{
	(void)prop;
	lps = mock_lps;
	lid_node_first = 0;
	n_lps_node = 3;
	global_config.lps = 3;
	for(int i = 0; i < 3; i++)
		mock_lps[i].rng_ctx = &mock_rng[i];
}

int rsv_case(const uint8_t *tp, size_t len, struct rsv_result *res)
{
	struct tape T = {tp, len, 0}, *t = &T;
	unsigned fn = t_choice(t, 9);
	unsigned who = t_choice(t, 3);
	unsigned ncraft = 1 + t_choice(t, 3);
	int k1, k2 = 99, k3 = 99;
	uint64_t r1 = boundary(t, &k1), r2 = 0, r3 = 0;
	if(ncraft >= 2)
		r2 = boundary(t, &k2);
	if(ncraft >= 3)
		r3 = boundary(t, &k3);
	/* the structural choices come first on the tape; the free state words are derived from one seed word */
	uint64_t sseed = t_u64(t);
	for(int i = 0; i < 3; i++)
		for(int j = 0; j < 4; j++)
			mock_rng[i].state[j] = rsv_mix(sseed + 1, (uint64_t)i * 4 + j + 1) | 1ULL;
	uint64_t *s = mock_rng[who].state;
	s[1] = s1_for(r1);
	if(ncraft >= 2)
		s[0] = s[1] ^ s[2] ^ s1_for(r2);
	if(ncraft >= 3)
		s[3] = s1_for(r2) ^ s[2] ^ (s[1] << 17) ^ s[1] ^ s1_for(r3);
	if(!(s[0] | s[1] | s[2] | s[3]))
		s[2] = 1; /* the all-zero state is the one documented invalid state of xoshiro */
	{ /* self-check of the crafting (a harness bug would be reported as such, not as a violation) */
		uint64_t c[4];
		memcpy(c, s, sizeof c);
		uint64_t o1 = ref_next(c), o2 = ref_next(c), o3 = ref_next(c);
		if(o1 != r1 || (ncraft >= 2 && o2 != r2) || (ncraft >= 3 && o3 != r3)) {
			res->verdict = RSV_DISCARD;
			snprintf(res->msg, sizeof res->msg, "harness: state crafting failed");
			return res->verdict;
		}
	}
	res->cls[CL_RAW0] = r1 == 0;
	res->cls[CL_RAW1] = r1 == 1;
	res->cls[CL_RAWMAX] = r1 == UINT64_MAX;
	res->cls[CL_RAWPOW2] = k1 >= 3 && k1 <= 7;
	res->nontrivial = k1 != 11;

	/* arguments */
	int a_min = 0, a_max = 0, a_x = 0;
	unsigned a_ia = 0, a_limit = 1;
	double a_skew = 2.0, a_mean = 1.0;
	static const int ibound[] = {0, 1, 2, 3, 7, 100, 65535, 65536, INT_MAX / 2, INT_MAX - 2, INT_MAX - 1};
	unsigned argclass = 0;
	switch(fn) {
		case 1:
		case 2: {
			unsigned m = t_choice(t, 4);
			argclass = m;
			if(m == 0) {
				a_max = ibound[t_choice(t, 11)];
				a_min = (int)(t_u32(t) % ((unsigned)a_max + 1));
			} else if(m == 1) {
				a_min = a_max = ibound[t_choice(t, 11)];
			} else if(m == 2) {
				a_min = 0;
				a_max = ibound[t_choice(t, 11)];
			} else {
				a_max = (int)(t_u32(t) % (unsigned)(INT_MAX - 1));
				a_min = (int)(t_u32(t) % ((unsigned)a_max + 1));
			}
			if(fn == 1 && t_prob(t, 40)) { /* negative minimum, span representable */
				int span = a_max - a_min;
				a_min = -(int)(t_u32(t) % (unsigned)INT_MAX) - 1;
				a_max = a_min + span;
				res->cls[CL_NEGMIN] = 1;
				argclass |= 8;
			}
			a_x = t_prob(t, 128) ? ibound[t_choice(t, 11)] : (int)(t_u32(t) % (unsigned)(INT_MAX - 1));
			break;
		}
		case 3:
			a_mean = (double[]){1.0, 0.0, 1e-300, 1e300, 0.5, 1234.5}[t_choice(t, 6)];
			break;
		case 4:
			a_ia = t_choice(t, 6);
			break;
		case 5:
			a_ia = 6 + t_choice(t, 45);
			break;
		case 6:
			a_skew = (double[]){1.000001, 1.01, 1.5, 2.0, 3.0, 10.0}[t_choice(t, 6)];
			a_limit = (unsigned[]){1, 2, 3, 10, 1000, 1000000, UINT_MAX}[t_choice(t, 7)];
			argclass = a_limit == 1;
			break;
		default:
			break;
	}
	res->cls[fn == 0 ? CL_RANDOM : fn == 1 ? CL_RANGE : fn == 2 ? CL_NONUNI : fn == 3 ? CL_EXPENT : fn == 4 ? CL_GAMMA_LO
	    : fn == 5 ? CL_GAMMA_HI : fn == 6 ? CL_ZIPF : fn == 7 ? CL_NORMAL : CL_U64] = 1;
	res->fingerprint = rsv_mix(rsv_mix(rsv_mix(fn * 16 + argclass, r1), ncraft >= 2 ? r2 : 77), ncraft >= 3 ? r3 : 78);
	rsv_sample(res, "fn=%u caller=%u raw=[%#llx,%#llx,%#llx](%u crafted) args: min=%d max=%d x=%d ia=%u skew=%g limit=%u mean=%g",
	    fn, who, (unsigned long long)r1, (unsigned long long)r2, (unsigned long long)r3, ncraft, a_min, a_max, a_x, a_ia,
	    a_skew, a_limit, a_mean);

	struct rng_ctx before[3], after_first[3];
	memcpy(before, mock_rng, sizeof before);
	double dres[2] = {0, 0};
	long long ires[2] = {0, 0};
	for(int rep = 0; rep < 2; rep++) {
		memcpy(mock_rng, before, sizeof before);
		current_lp = &mock_lps[who];
		switch(fn) {
			case 0:
				dres[rep] = Random();
				break;
			case 1:
				ires[rep] = RandomRange(a_min, a_max);
				break;
			case 2:
				ires[rep] = RandomRangeNonUniform(a_x, a_min, a_max);
				break;
			case 3:
				dres[rep] = Expent(a_mean);
				break;
			case 4:
			case 5:
				dres[rep] = Gamma(a_ia);
				break;
			case 6:
				ires[rep] = Zipf(a_skew, a_limit);
				break;
			case 7:
				dres[rep] = Normal();
				break;
			default:
				ires[rep] = (long long)RandomU64();
				break;
		}
		if(rep == 0)
			memcpy(after_first, mock_rng, sizeof after_first);
	}
	double d = dres[0];
	long long iv = ires[0];
	if(memcmp(&dres[0], &dres[1], sizeof(double)) || ires[0] != ires[1] || memcmp(after_first, mock_rng, sizeof after_first))
		rsv_fail(res, "C18", "same generator state, different result or different final state on repetition");
	for(int i = 0; i < 3; i++)
		if(i != (int)who && memcmp(&before[i], &mock_rng[i], sizeof before[i]))
			rsv_fail(res, "C18", "a call by LP %u changed the generator state of LP %d", who, i);
	{ /* the caller's state must be k >= 1 reference steps ahead */
		uint64_t c[4];
		memcpy(c, before[who].state, sizeof c);
		int k = 0, found = !memcmp(c, mock_rng[who].state, sizeof c); /* zero draws: Gamma(0) */
		int zero_draws = found;
		uint64_t first = 0;
		for(k = 1; !found && k <= 100000; k++) {
			uint64_t o = ref_next(c);
			if(k == 1)
				first = o;
			if(!memcmp(c, mock_rng[who].state, sizeof c)) {
				found = 1;
				break;
			}
		}
		if(!found)
			rsv_fail(res, "C18", "caller's generator state is not a successor of its previous state (within 1e5 steps)");
		else
			res->cls[CL_DRAWS] = zero_draws ? 0 : k;
		if(zero_draws && !(fn == 4 && a_ia == 0))
			rsv_fail(res, "C18", "the call did not advance the caller's generator");
		if(fn == 8 && (uint64_t)iv != first)
			rsv_fail(res, "C18", "RandomU64 returned %#llx, reference stream gives %#llx", iv, (unsigned long long)first);
	}
	switch(fn) {
		case 0:
			if(!(d >= 0.0 && d < 1.0))
				rsv_fail(res, "C18", "Random() = %a outside [0,1) for raw output %#llx", d, (unsigned long long)r1);
			break;
		case 1:
			if(iv < a_min || iv > a_max)
				rsv_fail(res, "C18", "RandomRange(%d,%d) = %lld outside the range (raw %#llx)", a_min, a_max, iv,
				    (unsigned long long)r1);
			break;
		case 2:
			if(iv < a_min || iv > a_max)
				rsv_fail(res, "C18", "RandomRangeNonUniform(%d,%d,%d) = %lld outside the range", a_x, a_min, a_max, iv);
			break;
		case 3:
			if(!(isfinite(d) && d >= 0.0))
				rsv_fail(res, "C18", "Expent(%g) = %a is not finite and non-negative (raw %#llx)", a_mean, d,
				    (unsigned long long)r1);
			break;
		case 4:
		case 5:
			if(!(isfinite(d) && d >= 0.0))
				rsv_fail(res, "C18", "Gamma(%u) = %a is not finite and non-negative (raw outputs %#llx,%#llx,%#llx)",
				    a_ia, d, (unsigned long long)r1, (unsigned long long)r2, (unsigned long long)r3);
			break;
		case 6:
			if(iv < 1 || (unsigned long long)iv > a_limit)
				rsv_fail(res, "C18", "Zipf(%g,%u) = %lld outside [1,limit]", a_skew, a_limit, iv);
			break;
		default:
			break;
	}
	return res->verdict;
}
