/* Atomic-step variant of the deterministic scheduler.
 *
 * The core is compiled with clang's ThreadSanitizer *instrumentation* (-fsanitize=thread, atomics only) but linked
 * without the ThreadSanitizer runtime: every C11 atomic operation of the core then becomes a call to one of the functions
 * below, which is a scheduling point of the baton scheduler followed by the plain operation.  The guarded hooks in the
 * core sit BEFORE the flag / counter operations they care about; a change that splits one read-modify-write into a load
 * and a store (or reorders two atomic operations) opens a window between two atomic operations where no hook is - this
 * variant can put a context switch there.  Only sequentially consistent interleavings are explored (one thread runs at a
 * time), so the memory-order argument of every operation is ignored. */
#include <stdint.h>

#include "rsv_rt.h"

#define RSV_SITE_ATOMIC 15
extern void rsv_yield(int site);

typedef unsigned char a8;
typedef unsigned short a16;
typedef unsigned int a32;
typedef unsigned long long a64;

void __tsan_init(void)
{
}

#define OPS(T)                                                                                                                    \
	T __tsan_atomic##T##_bits_load(const volatile T *a, int mo);                                                                  \
	T __tsan_##T##_dummy

#define DEF(N, T)                                                                                                                 \
	T __tsan_atomic##N##_load(const volatile T *a, int mo)                                                                        \
	{                                                                                                                             \
		(void)mo;                                                                                                                 \
		rsv_yield(RSV_SITE_ATOMIC);                                                                                               \
		return __atomic_load_n(a, __ATOMIC_SEQ_CST);                                                                              \
	}                                                                                                                             \
	void __tsan_atomic##N##_store(volatile T *a, T v, int mo)                                                                     \
	{                                                                                                                             \
		(void)mo;                                                                                                                 \
		rsv_yield(RSV_SITE_ATOMIC);                                                                                               \
		__atomic_store_n(a, v, __ATOMIC_SEQ_CST);                                                                                 \
	}                                                                                                                             \
	T __tsan_atomic##N##_exchange(volatile T *a, T v, int mo)                                                                     \
	{                                                                                                                             \
		(void)mo;                                                                                                                 \
		rsv_yield(RSV_SITE_ATOMIC);                                                                                               \
		return __atomic_exchange_n(a, v, __ATOMIC_SEQ_CST);                                                                       \
	}                                                                                                                             \
	T __tsan_atomic##N##_fetch_add(volatile T *a, T v, int mo)                                                                    \
	{                                                                                                                             \
		(void)mo;                                                                                                                 \
		rsv_yield(RSV_SITE_ATOMIC);                                                                                               \
		return __atomic_fetch_add(a, v, __ATOMIC_SEQ_CST);                                                                        \
	}                                                                                                                             \
	T __tsan_atomic##N##_fetch_sub(volatile T *a, T v, int mo)                                                                    \
	{                                                                                                                             \
		(void)mo;                                                                                                                 \
		rsv_yield(RSV_SITE_ATOMIC);                                                                                               \
		return __atomic_fetch_sub(a, v, __ATOMIC_SEQ_CST);                                                                        \
	}                                                                                                                             \
	T __tsan_atomic##N##_fetch_and(volatile T *a, T v, int mo)                                                                    \
	{                                                                                                                             \
		(void)mo;                                                                                                                 \
		rsv_yield(RSV_SITE_ATOMIC);                                                                                               \
		return __atomic_fetch_and(a, v, __ATOMIC_SEQ_CST);                                                                        \
	}                                                                                                                             \
	T __tsan_atomic##N##_fetch_or(volatile T *a, T v, int mo)                                                                     \
	{                                                                                                                             \
		(void)mo;                                                                                                                 \
		rsv_yield(RSV_SITE_ATOMIC);                                                                                               \
		return __atomic_fetch_or(a, v, __ATOMIC_SEQ_CST);                                                                         \
	}                                                                                                                             \
	T __tsan_atomic##N##_fetch_xor(volatile T *a, T v, int mo)                                                                    \
	{                                                                                                                             \
		(void)mo;                                                                                                                 \
		rsv_yield(RSV_SITE_ATOMIC);                                                                                               \
		return __atomic_fetch_xor(a, v, __ATOMIC_SEQ_CST);                                                                        \
	}                                                                                                                             \
	T __tsan_atomic##N##_fetch_nand(volatile T *a, T v, int mo)                                                                   \
	{                                                                                                                             \
		(void)mo;                                                                                                                 \
		rsv_yield(RSV_SITE_ATOMIC);                                                                                               \
		return __atomic_fetch_nand(a, v, __ATOMIC_SEQ_CST);                                                                       \
	}                                                                                                                             \
	int __tsan_atomic##N##_compare_exchange_strong(volatile T *a, T *c, T v, int mo, int fmo)                                     \
	{                                                                                                                             \
		(void)mo;                                                                                                                 \
		(void)fmo;                                                                                                                \
		rsv_yield(RSV_SITE_ATOMIC);                                                                                               \
		return __atomic_compare_exchange_n(a, c, v, 0, __ATOMIC_SEQ_CST, __ATOMIC_SEQ_CST);                                       \
	}                                                                                                                             \
	int __tsan_atomic##N##_compare_exchange_weak(volatile T *a, T *c, T v, int mo, int fmo)                                       \
	{                                                                                                                             \
		(void)mo;                                                                                                                 \
		(void)fmo;                                                                                                                \
		rsv_yield(RSV_SITE_ATOMIC);                                                                                               \
		return __atomic_compare_exchange_n(a, c, v, 0, __ATOMIC_SEQ_CST, __ATOMIC_SEQ_CST);                                       \
	}                                                                                                                             \
	T __tsan_atomic##N##_compare_exchange_val(volatile T *a, T c, T v, int mo, int fmo)                                           \
	{                                                                                                                             \
		(void)mo;                                                                                                                 \
		(void)fmo;                                                                                                                \
		rsv_yield(RSV_SITE_ATOMIC);                                                                                               \
		__atomic_compare_exchange_n(a, &c, v, 0, __ATOMIC_SEQ_CST, __ATOMIC_SEQ_CST);                                             \
		return c;                                                                                                                 \
	}

DEF(8, a8)
DEF(16, a16)
DEF(32, a32)
DEF(64, a64)

void __tsan_atomic_thread_fence(int mo)
{
	(void)mo;
	rsv_yield(RSV_SITE_ATOMIC);
	__atomic_thread_fence(__ATOMIC_SEQ_CST);
}
void __tsan_atomic_signal_fence(int mo)
{
	(void)mo;
}

/* in case a build keeps function entry/exit or plain-access instrumentation: no-ops */
void __tsan_func_entry(void *pc)
{
	(void)pc;
}
void __tsan_func_exit(void)
{
}
#define RW(n)                                                                                                                     \
	void __tsan_read##n(void *a)                                                                                                  \
	{                                                                                                                             \
		(void)a;                                                                                                                  \
	}                                                                                                                             \
	void __tsan_write##n(void *a)                                                                                                 \
	{                                                                                                                             \
		(void)a;                                                                                                                  \
	}                                                                                                                             \
	void __tsan_unaligned_read##n(void *a)                                                                                        \
	{                                                                                                                             \
		(void)a;                                                                                                                  \
	}                                                                                                                             \
	void __tsan_unaligned_write##n(void *a)                                                                                       \
	{                                                                                                                             \
		(void)a;                                                                                                                  \
	}
RW(1)
RW(2)
RW(4)
RW(8)
RW(16)
