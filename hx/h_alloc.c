/* C05 / C12 / C13: the rollbackable allocator (mm/buddy/{multi,buddy,ckpt}.c) against a shadow model.
 *
 * A case is a history of events.  Every event is a group of allocator operations (malloc / calloc / realloc /
 * free / write / library-RNG draw) closed by a boundary that appends 1..3 entries to the LP's history and may take
 * a checkpoint there - exactly what lp/process.c does.  Between events the case may roll back to an earlier
 * event-end position (restore + coast forward by re-issuing the recorded operations) or fossil-collect up to a
 * position.  The shadow keeps a deep snapshot of the logical state (live blocks by logical id, their bytes, the RNG
 * state) at every event-end position.
 */
#include <errno.h>
#include <stdlib.h>
#include <string.h>

#include <core/core.h>
#include <lib/random/random.h>
#include <log/log.h>
#include <lp/lp.h>
#include <mm/buddy/buddy.h>
#include <mm/buddy/ckpt.h>
#include <mm/model_allocator.h>

#include "rsv_case.h"

const char *rsv_harness_name = "h_alloc";
int rsv_fork_mode = 0;
unsigned rsv_default_tape_len = 900;
const char *rsv_rule =
    "tape -> history of <=48 events of allocator operations (sizes on and around every power of two up to the arena "
    "size, zero, over-size, calloc products that overflow), boundaries adding 1..3 history entries with checkpoints at "
    "generated positions, rollbacks to event-end positions at/between/before checkpoints followed by coast-forward "
    "re-execution, fossil collections at generated positions, repeated; oracle: shadow model - blocks inside an arena, "
    "aligned, pairwise disjoint, contents of all live blocks intact after every operation, realloc keeps the common "
    "prefix, calloc zeroed, failures leave the state untouched, freed space reusable without a new arena; after restore "
    "the state equals the snapshot of the returned position (<= target), after coasting it equals the snapshot of the "
    "target, RNG state included; fossil cut <= target and later rollbacks down to the cut still restore exactly; "
    "ASan/UBSan silent; non-trivial(C05) = rollback strictly between two checkpoints followed by a further checkpoint; "
    "non-trivial(C12) = >=2 arenas and a coalescing free; non-trivial(C13) = fossil strictly between checkpoints followed "
    "by a rollback; distinct = hash of the operation history";
enum { CL_OPS, CL_EVENTS, CL_CKPTS, CL_ROLLBACKS, CL_RB_BETWEEN, CL_RB_AT, CL_RB_BEFORE_NEWEST, CL_RB_REPEATED, CL_COAST_OPS,
	CL_ARENAS_MAX, CL_ARENAS_AFTER_CKPT, CL_FOSSILS, CL_FOSSIL_BETWEEN, CL_RB_AFTER_FOSSIL, CL_RB_TO_CUT, CL_COALESCE,
	CL_REALLOC_MOVE, CL_REALLOC_INPLACE, CL_FAIL_OVERSIZE, CL_FAIL_ZERO, CL_CALLOC_OVERFLOW, CL_REUSE_PROBE, CL_ADDR_CHANGED,
	CL_RNG_DRAWS, CL_CKPT_AFTER_RB };
const char *rsv_class_names[RSV_NCLS] = {"ops", "events", "checkpoints", "rollbacks", "rollback_strictly_between_checkpoints",
    "rollback_exactly_at_checkpoint", "rollback_before_newest_checkpoint", "rollback_repeated_without_progress",
    "coast_forward_ops", "max_arenas", "arenas_created_after_restored_checkpoint", "fossil_collections",
    "fossil_strictly_between_checkpoints", "rollback_after_fossil", "rollback_to_fossil_cut", "coalescing_frees",
    "realloc_moved", "realloc_in_place", "oversize_requests_rejected", "zero_size_requests_rejected",
    "calloc_overflow_requests", "reuse_probes", "coast_forward_address_changed", "rng_draws",
    "checkpoint_after_rollback"};

#define ARENA (1U << B_TOTAL_EXP)
#define MINBLK (1U << B_BLOCK_EXP)
#define MAXBLK 96
#define MAXEV 320
#define MAXOPS 1200

enum opk { OP_MALLOC, OP_CALLOC, OP_REALLOC, OP_FREE, OP_WRITE, OP_RNG, OP_BAD_MALLOC, OP_BAD_CALLOC, OP_REUSE_PROBE };
struct op {
	uint8_t k;
	int16_t blk;   /* logical block id the op refers to / creates */
	uint32_t size; /* malloc / realloc size; calloc: size * nmemb */
	uint32_t nmemb;
	uint32_t off, len;
	uint8_t pat;
	uint64_t big; /* over-size request */
};

struct blk {
	int live;
	unsigned char *addr;
	uint32_t size;
	unsigned char *bytes; /* shadow content */
};
struct snap {
	int valid;
	struct blk b[MAXBLK];
	uint64_t rng[4];
	int nblk;
	unsigned arenas;
};

static struct lp_ctx the_lp;
static struct blk B[MAXBLK];
static int nblk;
static struct op ops[MAXOPS];
static int nops;
/* events */
static int ev_first_op[MAXEV + 1], ev_end_pos[MAXEV + 1]; /* ops of event e: [ev_first_op[e], ev_first_op[e+1]) */
static int nev;                                           /* number of completed events */
static struct snap *snaps[MAXEV + 1];                    /* snapshot after event e */
static int is_ckpt[MAXEV + 1];
static struct rsv_result *R;
static const char *P = "C12", *PROP0 = "C12";
static size_t live_bytes;

static uint32_t roundup_blk(uint32_t s)
{
	uint32_t r = MINBLK;
	while(r < s)
		r <<= 1;
	return r;
}

static void snap_free(struct snap *s)
{
	if(!s)
		return;
	for(int i = 0; i < MAXBLK; i++)
		free(s->b[i].bytes);
	free(s);
}

static struct snap *snap_take(void)
{
	struct snap *s = calloc(1, sizeof *s);
	s->valid = 1;
	s->nblk = nblk;
	for(int i = 0; i < nblk; i++) {
		s->b[i] = B[i];
		s->b[i].bytes = NULL;
		if(B[i].live) {
			s->b[i].bytes = malloc(B[i].size);
			memcpy(s->b[i].bytes, B[i].bytes, B[i].size);
		}
	}
	memcpy(s->rng, the_lp.rng_ctx->state, sizeof s->rng);
	s->arenas = array_count(the_lp.mm_state.buddies);
	return s;
}

static void shadow_load(const struct snap *s)
{
	for(int i = 0; i < MAXBLK; i++) {
		free(B[i].bytes);
		memset(&B[i], 0, sizeof B[i]);
	}
	live_bytes = 0;
	for(int i = 0; i < s->nblk; i++) {
		B[i] = s->b[i];
		B[i].bytes = NULL;
		if(s->b[i].live) {
			B[i].bytes = malloc(s->b[i].size);
			memcpy(B[i].bytes, s->b[i].bytes, s->b[i].size);
			live_bytes += s->b[i].size;
		}
	}
	nblk = s->nblk;
}

static int in_arena(const unsigned char *p, uint32_t size)
{
	struct mm_state *m = &the_lp.mm_state;
	for(array_count_t i = 0; i < array_count(m->buddies); i++) {
		struct buddy_state *b = array_get_at(m->buddies, i);
		if(p >= b->base_mem && p + size <= b->base_mem + ARENA)
			return 1;
	}
	return 0;
}

/* every live block still holds its shadow content */
static int verify_all(const char *when)
{
	for(int i = 0; i < nblk; i++) {
		if(!B[i].live)
			continue;
		if(memcmp(B[i].addr, B[i].bytes, B[i].size)) {
			uint32_t k = 0;
			while(B[i].addr[k] == B[i].bytes[k])
				k++;
			rsv_fail(R, P, "%s: content of live block #%d (size %u) differs from the model at byte %u (is %02x, expected %02x)",
			    when, i, B[i].size, k, B[i].addr[k], B[i].bytes[k]);
			return 0;
		}
	}
	if(memcmp(the_lp.rng_ctx, B[0].bytes, sizeof(struct rng_ctx)) && B[0].live) {
		rsv_fail(R, P, "%s: generator state differs from the model", when);
		return 0;
	}
	return 1;
}

static int check_new_block(unsigned char *p, uint32_t size, int self, const char *what)
{
	if(!p) {
		rsv_fail(R, "C12", "%s(%u) failed although the size is within the 1..%u limit", what, size, ARENA);
		return 0;
	}
	if((uintptr_t)p & 15U)
		rsv_fail(R, "C12", "%s(%u) returned a block not aligned to 16 bytes", what, size);
	if(!in_arena(p, size))
		rsv_fail(R, "C12", "%s(%u) returned a block that is not inside any arena of the LP", what, size);
	for(int i = 0; i < nblk; i++)
		if(B[i].live && i != self && p < B[i].addr + B[i].size && B[i].addr < p + size)
			rsv_fail(R, "C12", "%s(%u) returned a block overlapping live block #%d (size %u)", what, size, i, B[i].size);
	return R->verdict != RSV_FAIL;
}

static void fill(unsigned char *dst, unsigned char *sh, uint32_t off, uint32_t len, uint8_t pat)
{
	for(uint32_t i = 0; i < len; i++) {
		unsigned char v = (unsigned char)(pat + (off + i) * 7);
		dst[off + i] = v;
		sh[off + i] = v;
	}
}

/* apply one operation to the real allocator and to the shadow; replay = coast forward */
static void apply(const struct op *o, int replay)
{
	struct mm_state *m = &the_lp.mm_state;
	array_count_t arenas0 = array_count(m->buddies);
	uint_fast32_t sz0 = m->full_ckpt_size;
	(void)roundup_blk;
	R->cls[CL_OPS] += !replay;
	R->cls[CL_COAST_OPS] += replay;
	switch(o->k) {
		case OP_MALLOC:
		case OP_CALLOC: {
			unsigned char *p;
			if(o->k == OP_MALLOC)
				p = rs_malloc(o->size);
			else
				p = rs_calloc(o->nmemb, o->size / o->nmemb);
			if(!check_new_block(p, o->size, -1, o->k == OP_MALLOC ? "rs_malloc" : "rs_calloc"))
				return;
			struct blk *b = &B[o->blk];
			if(replay && b->addr != p)
				R->cls[CL_ADDR_CHANGED]++;
			b->live = 1;
			b->addr = p;
			b->size = o->size;
			free(b->bytes);
			b->bytes = malloc(o->size);
			live_bytes += o->size;
			if(o->k == OP_CALLOC) {
				for(uint32_t i = 0; i < o->size; i++)
					if(p[i]) {
						rsv_fail(R, "C12", "rs_calloc(%u,%u) memory not zeroed at byte %u", o->nmemb, o->size / o->nmemb, i);
						return;
					}
				memset(b->bytes, 0, o->size);
			} else
				fill(p, b->bytes, 0, o->size, (uint8_t)(o->pat ^ 0x5a)); /* content is unspecified: define it */
			if(o->blk >= nblk)
				nblk = o->blk + 1;
			break;
		}
		case OP_FREE: {
			struct blk *b = &B[o->blk];
			/* classification only (white-box): did the freed node merge with its buddy? */
			struct buddy_state *bs = NULL;
			for(array_count_t i = 0; i < array_count(m->buddies); i++)
				if(b->addr >= array_get_at(m->buddies, i)->base_mem && b->addr < array_get_at(m->buddies, i)->base_mem + ARENA)
					bs = array_get_at(m->buddies, i);
			uint_fast32_t ni = 0;
			uint_fast8_t nsz = B_BLOCK_EXP;
			if(bs) {
				ni = (((uintptr_t)b->addr - (uintptr_t)bs->base_mem) >> B_BLOCK_EXP) + (1U << (B_TOTAL_EXP - B_BLOCK_EXP)) - 1;
				for(; bs->longest[ni]; ni = buddy_parent(ni))
					++nsz;
			}
			rs_free(b->addr);
			if(bs && ni && bs->longest[buddy_parent(ni)] == nsz + 1)
				R->cls[CL_COALESCE]++;
			b->live = 0;
			live_bytes -= b->size;
			break;
		}
		case OP_REUSE_PROBE: { /* freeing makes the space reusable: same-size request fits without a new arena */
			struct blk *b = &B[o->blk];
			unsigned char *old = b->addr;
			rs_free(old);
			array_count_t a1 = array_count(m->buddies);
			unsigned char *p = rs_malloc(b->size);
			if(!check_new_block(p, b->size, o->blk, "rs_malloc after rs_free of the same size"))
				return;
			if(array_count(m->buddies) != a1)
				rsv_fail(R, "C12", "freeing a %u-byte block did not make its space reusable: the same request created a new arena",
				    b->size);
			b->addr = p;
			memcpy(p, b->bytes, b->size);
			R->cls[CL_REUSE_PROBE]++;
			break;
		}
		case OP_REALLOC: {
			struct blk *b = &B[o->blk];
			unsigned char *p = rs_realloc(b->addr, o->size);
			if(!check_new_block(p, o->size, o->blk, "rs_realloc"))
				return;
			uint32_t common = b->size < o->size ? b->size : o->size;
			if(memcmp(p, b->bytes, common)) {
				rsv_fail(R, "C12", "rs_realloc(%u -> %u) did not preserve the common prefix", b->size, o->size);
				return;
			}
			R->cls[p == b->addr ? CL_REALLOC_INPLACE : CL_REALLOC_MOVE]++;
			unsigned char *nb = malloc(o->size);
			memcpy(nb, b->bytes, common);
			free(b->bytes);
			b->bytes = nb;
			live_bytes += o->size - b->size;
			if(o->size > common)
				fill(p, b->bytes, common, o->size - common, o->pat);
			b->addr = p;
			b->size = o->size;
			break;
		}
		case OP_WRITE: {
			struct blk *b = &B[o->blk];
			uint32_t off = o->off % b->size, len = o->len;
			if(off + len > b->size)
				len = b->size - off;
			fill(b->addr, b->bytes, off, len, o->pat);
			break;
		}
		case OP_RNG: {
			struct lp_ctx *save = current_lp;
			current_lp = &the_lp;
			(void)RandomU64();
			current_lp = save;
			memcpy(B[0].bytes, the_lp.rng_ctx, sizeof(struct rng_ctx));
			R->cls[CL_RNG_DRAWS] += !replay;
			break;
		}
		case OP_BAD_MALLOC: {
			errno = 0;
			void *p = o->big ? rs_malloc(o->big) : rs_malloc(0);
			if(p)
				rsv_fail(R, "C12", "rs_malloc(%llu) succeeded (must fail: zero or larger than an arena)", (unsigned long long)o->big);
			void *q = o->big ? rs_realloc(B[0].addr, o->big) : rs_realloc(NULL, 0);
			if(q)
				rsv_fail(R, "C12", "rs_realloc(.., %llu) succeeded (must fail)", (unsigned long long)o->big);
			R->cls[o->big ? CL_FAIL_OVERSIZE : CL_FAIL_ZERO]++;
			if(m->full_ckpt_size != sz0 || array_count(m->buddies) != arenas0)
				rsv_fail(R, "C12", "a rejected request (size %llu) changed the allocator state", (unsigned long long)o->big);
			break;
		}
		case OP_BAD_CALLOC: {
			/* nmemb * size overflows size_t: must fail cleanly */
			size_t nm = (size_t)o->big, sz = ((size_t)-1) / nm + 1 + o->nmemb;
			void *p = rs_calloc(nm, sz);
			R->cls[CL_CALLOC_OVERFLOW]++;
			if(p)
				rsv_fail(R, "C12", "rs_calloc(%zu, %zu) succeeded although the product overflows (returned a %zu-byte block)",
				    nm, sz, (size_t)(nm * sz));
			else if(m->full_ckpt_size != sz0 || array_count(m->buddies) != arenas0)
				rsv_fail(R, "C12", "a rejected calloc changed the allocator state");
			break;
		}
	}
	if(array_count(m->buddies) > R->cls[CL_ARENAS_MAX])
		R->cls[CL_ARENAS_MAX] = array_count(m->buddies);
}

static int pick_live(struct tape *t, int allow_rng_block)
{
	int cand[MAXBLK], n = 0;
	for(int i = allow_rng_block ? 0 : 1; i < nblk; i++)
		if(B[i].live)
			cand[n++] = i;
	return n ? cand[t_choice(t, (uint32_t)n)] : -1;
}

static uint32_t gen_size(struct tape *t)
{
	unsigned c = t_choice(t, 10);
	if(c < 6) { /* on and around a power of two */
		unsigned e = t_choice(t, B_TOTAL_EXP + 1);
		uint32_t s = 1U << e;
		unsigned d = t_choice(t, 3);
		s = d == 0 ? s : d == 1 ? s - 1 : s + 1;
		if(s == 0)
			s = 1;
		if(s > ARENA)
			s = ARENA;
		return s;
	}
	if(c < 8)
		return 1 + t_choice(t, 4 * MINBLK);
	return 1 + (uint32_t)(t_u32(t) % ARENA);
}

static void model_reset(void)
{
	for(int i = 0; i < MAXBLK; i++) {
		free(B[i].bytes);
		memset(&B[i], 0, sizeof B[i]);
	}
	for(int i = 0; i <= MAXEV; i++) {
		snap_free(snaps[i]);
		snaps[i] = NULL;
		is_ckpt[i] = 0;
	}
	nblk = nops = nev = 0;
	live_bytes = 0;
}

void rsv_setup(const char *prop)
{
	if(prop && prop[0])
		PROP0 = !strcmp(prop, "C05") ? "C05" : !strcmp(prop, "C13") ? "C13" : "C12";
	global_config.log_level = LOG_SILENT;
	log_init(stderr);
	lps = &the_lp;
	lid_node_first = 0;
	n_lps_node = 1;
	global_config.lps = 1;
}

/* positions: the history position of event-end e is ev_end_pos[e]; base_pos is subtracted after fossil collections */
static int ev_of_pos(int pos)
{
	for(int e = 0; e < nev; e++)
		if(ev_end_pos[e] == pos)
			return e;
	return -1;
}

int rsv_case(const uint8_t *tape, size_t len, struct rsv_result *res)
{
	struct tape T = {tape, len, 0}, *t = &T;
	R = res;
	model_reset();
	current_lp = &the_lp;
	memset(&the_lp, 0, sizeof the_lp);
	model_allocator_lp_init(&the_lp.mm_state);
	uint64_t fp = 0;
	const char *prop = PROP0;
	P = PROP0;
	int init_done = 0;
	/* the LP's generator lives in rollbackable memory, exactly as lp_init() arranges it: logical block #0 */
	the_lp.rng_ctx = rs_malloc(sizeof(struct rng_ctx));
	global_config.prng_seed = t_u32(t);
	random_lib_lp_init(0, the_lp.rng_ctx);
	B[0].live = 1;
	B[0].addr = (unsigned char *)the_lp.rng_ctx;
	B[0].size = sizeof(struct rng_ctx);
	B[0].bytes = malloc(B[0].size);
	memcpy(B[0].bytes, B[0].addr, B[0].size);
	nblk = 1;
	live_bytes = B[0].size;

	int hist_len = 0;     /* current history length (entries), in current coordinates */
	int first_legal = 1;  /* oldest position a rollback may target: position of the oldest kept checkpoint */
	int max_ops = 20 + (int)t_choice(t, 100);
	/* one history in eight starts with a long quiet stretch (no tape bytes: derived from max_ops): 140..199 one-draw events,
	 * each followed by a checkpoint, nothing collected or rolled back meanwhile - checkpoint logs of well over a hundred
	 * entries, which the generated fossil collections and rollbacks that follow then cut and re-base */
	int burst_left = max_ops % 8 == 3 ? 140 + (max_ops * 7) % 60 : 0;
	int cur_first_op = 0;
	int rb_between_seen = 0, nontriv05 = 0, nontriv13 = 0, fossil_between_seen = 0, had_fossil = 0;
	int last_rb_target = -1;
	size_t cap_bytes = (size_t)ARENA * 6;
	int total_steps = 0;

	while(res->verdict != RSV_FAIL && total_steps++ < 260 + 2 * 200 && nops < MAXOPS - 2 && nev < MAXEV - 1) {
		unsigned c = burst_left ? 21 : t_left(t) ? t_choice(t, 32) : 31; /* an exhausted tape closes the history */
		struct op o;
		memset(&o, 0, sizeof o);
		int done = 0;
		if(c < 8) { /* malloc / calloc */
			if(nblk >= MAXBLK || live_bytes > cap_bytes)
				continue;
			o.k = t_prob(t, 60) ? OP_CALLOC : OP_MALLOC;
			o.size = gen_size(t);
			o.nmemb = 1;
			if(o.k == OP_CALLOC) {
				static const uint32_t nm[] = {1, 2, 3, 4, 8, 16};
				o.nmemb = nm[t_choice(t, 6)];
				o.size = (o.size / o.nmemb) * o.nmemb;
				if(!o.size) {
					o.size = o.nmemb;
				}
			}
			o.blk = (int16_t)nblk;
			o.pat = t_u8(t);
		} else if(c < 12) { /* free */
			int b = pick_live(t, 0);
			if(b < 0)
				continue;
			o.k = t_prob(t, 40) ? OP_REUSE_PROBE : OP_FREE;
			o.blk = (int16_t)b;
		} else if(c < 15) { /* realloc */
			int b = pick_live(t, 0);
			if(b < 0 || live_bytes > cap_bytes)
				continue;
			o.k = OP_REALLOC;
			o.blk = (int16_t)b;
			o.size = t_prob(t, 80) ? B[b].size + (t_choice(t, 3) - 1) : gen_size(t);
			if(o.size == 0 || o.size > ARENA)
				o.size = 1;
			o.pat = t_u8(t);
		} else if(c < 20) { /* write */
			int b = pick_live(t, 0);
			if(b < 0)
				continue;
			o.k = OP_WRITE;
			o.blk = (int16_t)b;
			o.off = t_u32(t);
			o.len = 1 + t_choice(t, 300);
			o.pat = t_u8(t);
		} else if(c < 22) {
			o.k = OP_RNG;
		} else if(c == 22) {
			o.k = OP_BAD_MALLOC;
			static const uint64_t bigs[] = {0, (uint64_t)ARENA + 1, (uint64_t)ARENA * 2, 1ULL << 31, (1ULL << 32) + 5, (1ULL << 63) + 1,
			    UINT64_MAX, (uint64_t)ARENA + MINBLK};
			o.big = bigs[t_choice(t, 8)];
		} else if(c == 23) {
			o.k = OP_BAD_CALLOC;
			static const uint64_t nms[] = {2, 3, 1ULL << 32, (1ULL << 32) + 1, 1ULL << 33, 1ULL << 62, 65536, 7};
			o.big = nms[t_choice(t, 8)];
			o.nmemb = t_choice(t, 64);
		} else
			done = 1;
		if(!done) {
			ops[nops++] = o;
			fp = rsv_mix(fp, ((uint64_t)o.k << 56) ^ ((uint64_t)o.blk << 40) ^ o.size ^ o.big);
			apply(&o, 0);
			if(res->verdict != RSV_FAIL && (live_bytes <= 4 * ARENA || !(nops & 7)))
				verify_all("after an operation");
			if(!burst_left && nops - cur_first_op < max_ops / 4 + 2)
				continue;
			/* long events are closed */
		}
		if(res->verdict == RSV_FAIL)
			break;
		/* ---- event boundary ---- */
		if(nops > cur_first_op || !init_done || t_prob(t, 128)) {
			int k = burst_left ? 1 : 1 + (int)t_choice(t, 3);
			hist_len += k;
			ev_first_op[nev] = cur_first_op;
			ev_first_op[nev + 1] = nops;
			ev_end_pos[nev] = hist_len;
			cur_first_op = nops;
			verify_all("at an event boundary");
			snaps[nev] = snap_take();
			int take = !init_done || burst_left || t_prob(t, 90);
			init_done = 1;
			is_ckpt[nev] = take;
			if(take) {
				model_allocator_checkpoint_take(&the_lp.mm_state, (array_count_t)hist_len);
				res->cls[CL_CKPTS]++;
				if(rb_between_seen) {
					nontriv05 = 1;
					res->cls[CL_CKPT_AFTER_RB]++;
				}
				verify_all("after taking a checkpoint");
			}
			nev++;
			res->cls[CL_EVENTS]++;
			fp = rsv_mix(fp, 0xE0000 + k * 2 + take);
		}
		if(res->verdict == RSV_FAIL)
			break;
		/* ---- between events: rollback / fossil ---- */
		unsigned a = burst_left ? 0 : t_choice(t, 8);
		if(burst_left)
			burst_left--;
		if(a >= 5 && nev >= 2) { /* rollback: at least the last event is undone */
			int cand[MAXEV], nc = 0;
			for(int e = 0; e < nev - 1; e++)
				if(ev_end_pos[e] >= first_legal)
					cand[nc++] = e;
			int target_e = -1, target_pos;
			if(first_legal == 0 && (nc == 0 || t_prob(t, 50))) {
				target_pos = 0; /* everything kept after a fossil collection is undone */
			} else if(nc) {
				target_e = cand[nc - 1 - (int)t_choice(t, (uint32_t)(nc < 6 || t_prob(t, 64) ? nc : 6))];
				target_pos = ev_end_pos[target_e];
			} else
				continue;
			/* classify against the checkpoints that exist */
			int newest_ck = -1, ck_at = 0, ck_before = -1, ck_after = -1;
			for(int e = 0; e < nev; e++)
				if(is_ckpt[e]) {
					newest_ck = ev_end_pos[e];
					if(ev_end_pos[e] == target_pos)
						ck_at = 1;
					if(ev_end_pos[e] < target_pos)
						ck_before = ev_end_pos[e];
					if(ev_end_pos[e] > target_pos && ck_after < 0)
						ck_after = ev_end_pos[e];
				}
			if(first_legal == 0 && target_pos == 0)
				ck_at = 1;
			int between = !ck_at && ck_after >= 0;
			res->cls[CL_ROLLBACKS]++;
			res->cls[CL_RB_AT] += ck_at;
			res->cls[CL_RB_BETWEEN] += between;
			res->cls[CL_RB_BEFORE_NEWEST] += target_pos < newest_ck;
			res->cls[CL_RB_REPEATED] += last_rb_target == target_pos;
			res->cls[CL_RB_AFTER_FOSSIL] += had_fossil;
			res->cls[CL_RB_TO_CUT] += had_fossil && target_pos == 0;
			if(had_fossil && fossil_between_seen)
				nontriv13 = 1;
			last_rb_target = target_pos;
			fp = rsv_mix(fp, 0xB0000 + (unsigned)target_pos);
			/* arenas that exist now but not at the checkpoint that will be restored */
			array_count_t arenas_now = array_count(the_lp.mm_state.buddies);

			array_count_t got = model_allocator_checkpoint_restore(&the_lp.mm_state, (array_count_t)target_pos);
			int got_e = got == 0 && first_legal == 0 ? -2 : ev_of_pos((int)got);
			const char *rp = strcmp(prop, "C13") ? "C05" : (had_fossil ? "C13" : "C05");
			if((int)got > target_pos || (got_e == -1) || (int)got < first_legal) {
				rsv_fail(res, rp, "restore(target %d) returned position %u which is not an event-end position in [%d, %d]",
				    target_pos, (unsigned)got, first_legal, target_pos);
				break;
			}
			const struct snap *s0 = got_e == -2 ? snaps[MAXEV] : snaps[got_e];
			if(!s0) {
				rsv_fail(res, rp, "harness: no snapshot for position %u", (unsigned)got);
				res->verdict = RSV_DISCARD;
				break;
			}
			/* arenas unknown to the restored checkpoint stay around, empty */
			if(arenas_now > s0->arenas)
				res->cls[CL_ARENAS_AFTER_CKPT] += arenas_now - s0->arenas;
			shadow_load(s0);
			P = rp;
			if(!verify_all("right after checkpoint restore"))
				break;
			if(memcmp(the_lp.rng_ctx->state, s0->rng, sizeof s0->rng)) {
				rsv_fail(res, rp, "generator state after restore differs from the state at position %u", (unsigned)got);
				break;
			}
			/* coast forward: re-issue the operations of the events in (got, target] */
			int from_e = got_e == -2 ? 0 : got_e + 1;
			/* events whose end position is <= base were dropped by fossil collection: first kept event index */
			int e;
			for(e = from_e; e <= target_e && res->verdict != RSV_FAIL; e++)
				for(int i = ev_first_op[e]; i < ev_first_op[e + 1] && res->verdict != RSV_FAIL; i++)
					apply(&ops[i], 1);
			if(res->verdict == RSV_FAIL)
				break;
			if(!verify_all("after coasting forward to the rollback target"))
				break;
			/* the logical state must be the one recorded at the target */
			const struct snap *s1 = target_e >= 0 ? snaps[target_e] : s0;
			for(int i = 0; i < MAXBLK && res->verdict != RSV_FAIL; i++) {
				int lv = i < s1->nblk && s1->b[i].live;
				if(lv != (i < nblk && B[i].live))
					rsv_fail(res, rp, "harness: live set after coasting differs from the recorded one (block %d)", i);
				else if(lv && (B[i].size != s1->b[i].size || memcmp(B[i].bytes, s1->b[i].bytes, B[i].size)))
					rsv_fail(res, rp, "state after rollback to position %d: block #%d differs from its content right after the last valid event",
					    target_pos, i);
			}
			if(memcmp(the_lp.rng_ctx->state, s1->rng, sizeof s1->rng))
				rsv_fail(res, rp, "generator state after rollback to position %d differs from the one right after the last valid event",
				    target_pos);
			P = prop;
			if(res->verdict == RSV_FAIL)
				break;
			rb_between_seen |= between;
			/* drop the undone future */
			for(e = target_e + 1; e < nev; e++) {
				snap_free(snaps[e]);
				snaps[e] = NULL;
				is_ckpt[e] = 0;
			}
			nev = target_e + 1;
			nops = ev_first_op[nev];
			cur_first_op = nops;
			hist_len = target_pos;
		} else if(a == 4 && nev >= 2) { /* fossil collection up to an event-end position */
			int e = (int)t_choice(t, (uint32_t)nev);
			int target_pos = ev_end_pos[e];
			if(target_pos < 1)
				continue;
			int ck_at = 0, ck_after = 0;
			for(int q = 0; q < nev; q++)
				if(is_ckpt[q]) {
					ck_at |= ev_end_pos[q] == target_pos;
					ck_after |= ev_end_pos[q] > target_pos;
				}
			array_count_t cut = model_allocator_fossil_lp_collect(&the_lp.mm_state, (array_count_t)target_pos);
			res->cls[CL_FOSSILS]++;
			fp = rsv_mix(fp, 0xF0000 + (unsigned)target_pos);
			int cut_e = cut == 0 && first_legal == 0 ? -2 : ev_of_pos((int)cut);
			if((int)cut > target_pos || cut_e == -1 || (int)cut < first_legal) {
				rsv_fail(res, "C13", "fossil collection up to position %d cut the history at %u, which is not a kept checkpoint position in [%d,%d]",
				    target_pos, (unsigned)cut, first_legal, target_pos);
				break;
			}
			if(cut_e >= 0 && !is_ckpt[cut_e]) {
				rsv_fail(res, "C13", "fossil collection cut the history at position %u where no checkpoint was taken", (unsigned)cut);
				break;
			}
			if(!ck_at && ck_after) {
				res->cls[CL_FOSSIL_BETWEEN]++;
				fossil_between_seen = 1;
			}
			had_fossil = 1;
			if(cut_e >= 0) {
				/* re-base: the kept history starts at the checkpoint of event cut_e */
				snap_free(snaps[MAXEV]);
				snaps[MAXEV] = snaps[cut_e];
				snaps[cut_e] = NULL;
				int shift = cut_e + 1, opshift = ev_first_op[cut_e + 1];
				for(int q = 0; q < shift; q++)
					if(snaps[q]) {
						snap_free(snaps[q]);
						snaps[q] = NULL;
					}
				for(int q = shift; q < nev; q++) {
					snaps[q - shift] = snaps[q];
					snaps[q] = NULL;
					is_ckpt[q - shift] = is_ckpt[q];
					ev_end_pos[q - shift] = ev_end_pos[q] - (int)cut;
					ev_first_op[q - shift] = ev_first_op[q] - opshift;
				}
				ev_first_op[nev - shift] = ev_first_op[nev] - opshift;
				for(int q = nev - shift; q < nev; q++)
					is_ckpt[q] = 0;
				memmove(ops, ops + opshift, sizeof(struct op) * (size_t)(nops - opshift));
				nops -= opshift;
				cur_first_op -= opshift;
				nev -= shift;
				hist_len -= (int)cut;
				first_legal = 0;
				last_rb_target = -1;
			}
			verify_all("after fossil collection");
		}
	}
	if(res->verdict != RSV_FAIL)
		verify_all("at the end of the history");
	res->fingerprint = fp;
	int nt12 = res->cls[CL_ARENAS_MAX] >= 2 && res->cls[CL_COALESCE] > 0;
	res->nontrivial = !strcmp(prop, "C05") ? nontriv05 : !strcmp(prop, "C13") ? nontriv13 : nt12;
	rsv_sample(res, "ops=%llu events=%llu ckpts=%llu rollbacks=%llu(between=%llu) fossils=%llu arenas=%llu coast_ops=%llu",
	    (unsigned long long)res->cls[CL_OPS], (unsigned long long)res->cls[CL_EVENTS], (unsigned long long)res->cls[CL_CKPTS],
	    (unsigned long long)res->cls[CL_ROLLBACKS], (unsigned long long)res->cls[CL_RB_BETWEEN],
	    (unsigned long long)res->cls[CL_FOSSILS], (unsigned long long)res->cls[CL_ARENAS_MAX],
	    (unsigned long long)res->cls[CL_COAST_OPS]);
	model_allocator_lp_fini(&the_lp.mm_state);
	snap_free(snaps[MAXEV]);
	snaps[MAXEV] = NULL;
	model_reset();
	return res->verdict;
}
