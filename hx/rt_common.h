#ifndef RT_COMMON_H
#define RT_COMMON_H
#include <stdarg.h>
#include "gm_model.h"
#include "refexec.h"
#include "rsv_case.h"
#include "rsv_rt.h"

enum {
	K_RUNS_SERIAL, K_RUNS_DET, K_RUNS_FREE, K_ROLLBACKS, K_UNDONE, K_SILENT, K_CKPTS, K_RB_AT_CKPT, K_RB_BETWEEN, K_ANTI_LOCAL,
	K_ANTI_BEFORE_EXTRACT, K_ANTI_AFTER_PROCESS, K_ANTI_REQUEUED, K_GVT_ROUNDS, K_FOSSILS, K_FOSSIL_THEN_RB, K_TIES, K_IDENT_TIES,
	K_ZERO_DELAY, K_BIG_PAYLOAD, K_THREADS_GT_LPS, K_EVENTS_REF, K_STOP_RUNS, K_TT_RUNS, K_TRUE_AT_INIT, K_TRUE_AT_T0,
	K_SPEC_TRUE_ROLLED_BACK, K_LIB_DRAWS, K_MEM_OPS, K_OTHER_PROP_FAIL, K_HANGS, K_STEPS_K, K_SWITCHES_K, K_COMMITTED,
	K_GVT_OPEN_AT_STOP, K_STATS_RECORDS, K_RB_DIGESTS, K_LEFTOVER, K_BUDGET, K_EARLY_END,
	K_RANKS, K_REMOTE_SENT, K_REMOTE_ANTI, K_EARLY_ANTI, K_EARLY_MATCH, K_REMOTE_ANTI_MATCHED, K_NET_DELAYED, K_NET_OVERTAKES,
	K_NET_TEST_SKIPPED, K_NET_LEFTOVER, K_CROSS_RANK_REF, K_PRESET_TICK, K_PRESET_CASCADE, K_GVT_BOUND_BY_ANTI, K_ENDLESS, K_STATELESS_LPS, K_PRESET_STORM
};

struct rt_cfg {
	int serial;
	unsigned n_threads, ckpt_interval, gvt_period;
	double termination_time;
	int core_binding, stats;
	uint64_t prng_seed;
	int mode;
	struct rsv_sched sched;
	/* E4 */
	unsigned ranks;
	unsigned net_delay_max, net_delay_prob, net_test_skip, net_reorder;
};

struct rt_ctx {
	struct rsv_result *res;
	const char *prop;
	int free_mode;
	int preset;
	struct rt_cfg cfg;
	struct ref_result ref;
	char other_msg[400];
};
extern struct rt_ctx RT;

#if defined(__GNUC__)
__attribute__((format(printf, 2, 3)))
#endif
void rt_fail(const char *prop, const char *fmt, ...);
void rt_oracles_begin(void);
void rt_oracles_end(const char *stats_path);
void rt_hang_classify(const char *why, const char *sig);
void rt_abort_case(void);
int rt_known(const char *key);
#endif
