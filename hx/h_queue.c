/* C15: the inter-thread message queue loses nothing and its peek is a true lower bound.
 * Real code under test: datatypes/msg_queue.c (+ heap.h).  One consumer thread and 1..4 producer threads, all
 * virtual threads of the DET scheduler (yield points before the load, between load and CAS, before the buffer swap)
 * or real threads (FREE).  The harness records the begin/end of every queue call in one total order (DET). */
#include <stdatomic.h>
#include <stdlib.h>
#include <string.h>
#include <unistd.h>

#include <core/core.h>
#include <datatypes/msg_queue.h>
#include <lp/lp.h>
#include <lp/msg.h>
#include <verif/rsv.h>

#include "rsv_case.h"
#include "rsv_rt.h"

const char *rsv_harness_name = "h_queue";
int rsv_fork_mode = 1;
unsigned rsv_default_tape_len = 260;
const char *rsv_rule =
    "tape -> 1..4 producers with lists of messages (timestamps from a small pool so that ties are frequent, cancelled "
    "entries, several destination LPs of the consumer thread) x consumer script of extract/peek calls x schedule; "
    "oracle (DET total order): every inserted message is extracted exactly once; an extract never returns NULL nor a "
    "message later than one whose insertion completed before the call began and that is still unextracted; a peek is "
    "never larger than the timestamp of such a message; FREE: exactly-once only; non-trivial = a producer was inside "
    "its load/compare-and-swap window while another insertion on the same buffer completed; distinct = hash of the case";
enum { CL_PRODUCERS, CL_MSGS, CL_EXTRACTS, CL_PEEKS, CL_WINDOW, CL_TIES, CL_ANTI, CL_NULL_EXTRACTS, CL_DET, CL_FREE, CL_SWAP_RACE };
const char *rsv_class_names[RSV_NCLS] = {"producers", "messages", "extract_calls", "peek_calls", "cas_window_interleavings",
    "timestamp_ties", "cancelled_entries", "extracts_on_empty", "runs_DET", "runs_FREE", "insert_completed_during_consumer_call"};

#define MAXP 4
#define MAXM 48
#define MAXOPS 400

struct pm {
	struct lp_msg *m;
	double t;
	uint64_t ins_begin, ins_end; /* global sequence numbers, 0 = not yet */
	uint64_t ext_seq;
	unsigned extracted;
};
static struct pm M[MAXP * MAXM];
static unsigned nmsg, nprod, per_prod[MAXP];
static _Atomic uint64_t gseq = 1;
static _Atomic unsigned prod_done;
static int in_window[RSV_MAXT];
static _Atomic uint64_t window_hits, swap_race;
static int consumer_in_call;
static _Atomic int consumer_ready;
static struct rsv_result *R;
static uint8_t script[MAXOPS];
static unsigned nscript;
static int free_mode;
extern void rsv_emit_and_exit(const struct rsv_result *r) __attribute__((weak));

static void on_hang(const char *why)
{
	if(!strcmp(why, "budget")) {
		R->verdict = RSV_INCONCLUSIVE;
		snprintf(R->msg, sizeof R->msg, "step budget exhausted (inconclusive)");
	} else
		rsv_fail(R, "C15", "queue operations did not complete (%s)", why);
	if(rsv_emit_and_exit)
		rsv_emit_and_exit(R);
	_exit(78);
}

static void on_yield(int site, int thr)
{
	if(thr < 0 || thr >= RSV_MAXT)
		return;
	if(site == RSV_SITE_QUEUE_INSERT_CAS)
		in_window[thr] = 1;
}

static void *producer(void *arg)
{
	unsigned p = (unsigned)(uintptr_t)arg;
	unsigned base = p * MAXM;
	int me = rsv_cur_thread();
	while(!atomic_load(&consumer_ready)) { /* the runtime separates queue initialisation from the first send by a barrier */
		rsv_yield(RSV_SITE_MAIN_LOOP);
		if(free_mode)
			usleep(10);
	}
	for(unsigned i = 0; i < per_prod[p]; i++) {
		struct pm *x = &M[base + i];
		x->ins_begin = atomic_fetch_add(&gseq, 1);
		msg_queue_insert(x->m);
		x->ins_end = atomic_fetch_add(&gseq, 1);
		if(!free_mode) {
			/* DET: exactly one thread runs; anybody parked inside its load/CAS window has been overtaken */
			for(int k = 0; k < RSV_MAXT; k++)
				if(k != me && in_window[k]) {
					window_hits++;
					in_window[k] = 0;
				}
			if(me >= 0 && me < RSV_MAXT)
				in_window[me] = 0;
			if(consumer_in_call)
				swap_race++;
		}
	}
	atomic_fetch_add(&prod_done, 1);
	return NULL;
}

static struct pm *find(const struct lp_msg *m)
{
	for(unsigned p = 0; p < nprod; p++)
		for(unsigned i = 0; i < per_prod[p]; i++)
			if(M[p * MAXM + i].m == m)
				return &M[p * MAXM + i];
	return NULL;
}

static void check_lower_bound(uint64_t call_begin, double value, const struct pm *got, int is_peek)
{
	if(free_mode)
		return;
	for(unsigned p = 0; p < nprod; p++)
		for(unsigned i = 0; i < per_prod[p]; i++) {
			const struct pm *x = &M[p * MAXM + i];
			if(x == got || !x->ins_end || x->ins_end > call_begin)
				continue; /* insertion not complete before the call began */
			if(x->extracted && x->ext_seq < call_begin)
				continue; /* already extracted before */
			if(is_peek) {
				if(value > x->t)
					rsv_fail(R, "C15", "minimum-time query returned %a although a message with timestamp %a had been inserted before the query began and is not extracted",
					    value, x->t);
			} else if(!got) {
				rsv_fail(R, "C15", "extraction returned no message although a message (t=%a) had been inserted before the call began", x->t);
			} else if(x->t < got->t) {
				rsv_fail(R, "C15", "extraction returned a message with timestamp %a although one with timestamp %a had been inserted before the call began",
				    got->t, x->t);
			}
			if(R->verdict == RSV_FAIL)
				return;
		}
}

static void do_extract(void)
{
	uint64_t b = atomic_fetch_add(&gseq, 1);
	consumer_in_call = 1;
	struct lp_msg *m = msg_queue_extract();
	consumer_in_call = 0;
	uint64_t e = atomic_fetch_add(&gseq, 1);
	R->cls[CL_EXTRACTS]++;
	struct pm *x = m ? find(m) : NULL;
	if(m && !x) {
		rsv_fail(R, "C15", "extraction returned a message that was never inserted");
		return;
	}
	if(!m)
		R->cls[CL_NULL_EXTRACTS]++;
	check_lower_bound(b, m ? m->dest_t : 0, x, 0);
	if(x) {
		if(x->extracted)
			rsv_fail(R, "C15", "message with timestamp %a extracted twice", x->t);
		if(!x->ins_begin)
			rsv_fail(R, "C15", "message extracted before its insertion began");
		x->extracted++;
		x->ext_seq = e;
	}
}

static void do_peek(void)
{
	uint64_t b = atomic_fetch_add(&gseq, 1);
	consumer_in_call = 1;
	simtime_t v = msg_queue_time_peek();
	consumer_in_call = 0;
	(void)atomic_fetch_add(&gseq, 1);
	R->cls[CL_PEEKS]++;
	check_lower_bound(b, v, NULL, 1);
}

static void *consumer(void *arg)
{
	(void)arg;
	rid = 0;
	msg_queue_init();
	atomic_store(&consumer_ready, 1);
	for(unsigned i = 0; i < nscript && R->verdict != RSV_FAIL; i++) {
		rsv_yield(RSV_SITE_MAIN_LOOP); /* producers may complete insertions between two calls of the consumer */
		if(script[i])
			do_peek();
		else
			do_extract();
	}
	/* drain: after all producers are done everything must come out exactly once */
	unsigned spins = 0;
	while(R->verdict != RSV_FAIL) {
		int done = atomic_load(&prod_done) == nprod;
		uint64_t before = R->cls[CL_NULL_EXTRACTS];
		do_extract();
		if(R->cls[CL_NULL_EXTRACTS] != before) { /* empty */
			if(done)
				break;
			/* no bound of our own: DET has its step budget, FREE the case time-out (inconclusive) */
			(void)spins;
			rsv_yield(RSV_SITE_MAIN_LOOP);
			if(free_mode)
				usleep(5);
		}
	}
	return NULL;
}

int rsv_case(const uint8_t *tape, size_t len, struct rsv_result *res)
{
	struct tape T = {tape, len, 0}, *t = &T;
	R = res;
	free_mode = getenv("RSV_FREE") && atoi(getenv("RSV_FREE"));
	nprod = 1 + (1 + t_choice(t, MAXP)) % MAXP;
	/* consumer script first on the tape (short tapes still get one): bit pattern of peek/extract calls */
	nscript = 4 + t_choice(t, free_mode ? 40 : MAXOPS / 4);
	uint64_t sbits = t_u64(t) ^ 0x5a5a5a5a5a5a5a5aULL;
	for(unsigned i = 0; i < nscript; i++) {
		script[i] = (uint8_t)((sbits >> (i & 63)) & 1);
		if((i & 63) == 63)
			sbits = rsv_mix(sbits, i);
	}
	static const double pool[] = {1.0, 1.0, 2.0, 0.0, 0x1.0000000000001p0, 3.5, 1e300, 2.0};
	unsigned npool = 2 + t_choice(t, 7);
	unsigned n_dest = 1 + t_choice(t, 4);
	uint64_t fp = rsv_mix(nprod * 7 + npool, sbits ^ nscript);
	nmsg = 0;
	for(unsigned p = 0; p < nprod; p++) {
		per_prod[p] = free_mode ? MAXM : 1 + t_choice(t, MAXM / 3);
		for(unsigned i = 0; i < per_prod[p]; i++) {
			struct pm *x = &M[p * MAXM + i];
			memset(x, 0, sizeof *x);
			unsigned sz = (unsigned[]){0, 4, 40}[t_choice(t, 3)];
			struct lp_msg *m = malloc(sizeof *m + (sz > MSG_PAYLOAD_BASE_SIZE ? sz - MSG_PAYLOAD_BASE_SIZE : 0));
			memset(m, 0, sizeof *m);
			m->dest = t_choice(t, n_dest);
			m->dest_t = pool[t_choice(t, npool)];
			m->raw_flags = t_prob(t, 40) ? MSG_FLAG_ANTI : 0;
			m->m_type = t_choice(t, 3);
			m->pl_size = sz;
			unsigned char *plp = (unsigned char *)m + offsetof(struct lp_msg, pl);
			for(unsigned k = 0; k < sz; k++)
				plp[k] = (unsigned char)t_choice(t, 3);
			x->m = m;
			x->t = m->dest_t;
			res->cls[CL_ANTI] += m->raw_flags & 1;
			uint64_t tb;
			memcpy(&tb, &m->dest_t, 8);
			fp = rsv_mix(fp, tb ^ (m->dest << 20) ^ m->m_type);
			nmsg++;
		}
	}
	for(unsigned p = 0; p < nprod; p++)
		for(unsigned i = 0; i < per_prod[p]; i++)
			for(unsigned q = 0; q < nprod; q++)
				for(unsigned j = 0; j < per_prod[q]; j++)
					if((p < q || (p == q && i < j)) && M[p * MAXM + i].t == M[q * MAXM + j].t)
						res->cls[CL_TIES]++;
	struct rsv_sched sc;
	memset(&sc, 0, sizeof sc);
	sc.mode = free_mode ? RSV_MODE_FREE : RSV_MODE_DET;
	sc.seed = t_u32(t);
	sc.switch_per_1024 = (unsigned[]){200, 30, 600, 950}[t_choice(t, 4)];
	sc.burst_per_64k = (unsigned[]){0, 200, 2000}[t_choice(t, 3)];
	sc.burst_max = 60;
	sc.hot_sites = t_prob(t, 160) ? (1U << RSV_SITE_QUEUE_INSERT_CAS | 1U << RSV_SITE_QUEUE_SWAP) : 0;
	sc.budget = 5000000;
	sc.noprogress = 1500000;
	sc.free_perturb_per_1024 = (unsigned[]){0, 100, 500}[t_choice(t, 3)];
	res->cls[CL_PRODUCERS] = nprod;
	res->cls[CL_MSGS] = nmsg;
	res->cls[free_mode ? CL_FREE : CL_DET] = 1;
	rsv_sample(res, "%s producers=%u messages=%u script=%u dests=%u pool=%u seed=%llu sw=%u burst=%u hot=%#x", free_mode ? "FREE" : "DET", nprod,
	    nmsg, nscript, n_dest, npool, (unsigned long long)sc.seed, sc.switch_per_1024, sc.burst_per_64k, sc.hot_sites);

	global_config.n_threads = 1;
	global_config.lps = n_dest;
	n_lps_node = n_dest;
	lid_node_first = 0;
	msg_queue_global_init();
	rsv_rt_init(&sc);
	rsv_on_hang = on_hang;
	rsv_yield_callback = on_yield;
	rsv_spawn(consumer, NULL);
	for(unsigned p = 0; p < nprod; p++)
		rsv_spawn(producer, (void *)(uintptr_t)p);
	rsv_join_all();
	rsv_on_hang = NULL;
	rsv_yield_callback = NULL;
	if(res->verdict != RSV_FAIL)
		for(unsigned p = 0; p < nprod; p++)
			for(unsigned i = 0; i < per_prod[p]; i++)
				if(M[p * MAXM + i].extracted != 1) {
					rsv_fail(res, "C15", "a message inserted for the thread (t=%a, producer %u) was extracted %u times", M[p * MAXM + i].t, p,
					    M[p * MAXM + i].extracted);
					goto done;
				}
done:
	res->cls[CL_WINDOW] = window_hits;
	res->cls[CL_SWAP_RACE] = swap_race;
	res->nontrivial = free_mode ? nprod >= 2 : window_hits > 0;
	res->fingerprint = rsv_mix(fp, sc.seed * 31 + sc.switch_per_1024);
	return res->verdict;
}
