/* force-included when compiling the reference executor for E4: it borrows rank 0's copy of the numerical library
 * and of the few globals it touches (the reference run is over before any rank starts). */
#define global_config r0_global_config
#define current_lp r0_current_lp
#define random_lib_lp_init r0_random_lib_lp_init
#define Random r0_Random
#define RandomU64 r0_RandomU64
#define Poisson r0_Poisson
#define Normal r0_Normal
#define RandomRange r0_RandomRange
#define RandomRangeNonUniform r0_RandomRangeNonUniform
#define Gamma r0_Gamma
#define Zipf r0_Zipf
