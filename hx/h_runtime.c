/* E3: whole-runtime campaign.  A case = (generated model, configuration, thread schedule).
 * The child process (one per case) runs the reference executor, then the real runtime (serial, or parallel under
 * the deterministic scheduler DET, or parallel on real perturbed threads FREE) and evaluates the oracles:
 *   end state (C01/C09/C10), premature termination (C07), liveness + LP_FINI once (C08), ownership (C14),
 *   in-vivo rollback digest (C05), and the trace oracles of rt_oracles.c (C03, C04, C06, C20).
 * Only oracles of the property being checked fail the case; other oracles are evaluated and counted. */
#define _GNU_SOURCE
#include <math.h>
#include <stdlib.h>
#include <string.h>
#include <unistd.h>

#include <ROOT-Sim.h>
#include <core/core.h>
#include <lp/lp.h>
#include <verif/rsv.h>

#include "gm_model.h"
#include "refexec.h"
#include "rsv_case.h"
#include "rsv_rt.h"
#include "rt_common.h"
#ifdef RSV_E4
#include "e4_api.h"
#include "fakempi/mpi.h"
const char *rsv_harness_name = "h_mpi";
#else
const char *rsv_harness_name = "h_runtime";
#endif
int rsv_fork_mode = 1;
unsigned rsv_default_tape_len = 300;
const char *rsv_rule =
    "tape -> ModelSpec (1..12 LPs, rule table of send/memory/library-RNG actions, time mode continuous/grid/mixed, zero "
    "delay and one-ulp delays, payload 0..4000 B, per-LP goals incl. true-at-init and first-true-at-t=0, optional "
    "RootsimStop / termination time) x configuration (serial | threads 1..8 incl. > LPs, checkpoint interval auto/1/2/3/5/8/64, "
    "GVT period 0..1000 virtual us, core binding) x schedule (DET: seed, switch rate, starvation bursts, hot sites; FREE: "
    "perturbation seed); oracle: independent reference executor (per-LP delivery sequences, digests, first-true times) "
    "plus history invariants over the hook trace; non-trivial rule per property in the class table (C01: >=1 rollback); "
    "distinct = hash of (model, configuration, schedule, rollback/anti-message counts)";

const char *rsv_class_names[RSV_NCLS] = {
    [K_RUNS_SERIAL] = "runs_serial", [K_RUNS_DET] = "runs_parallel_DET", [K_RUNS_FREE] = "runs_parallel_FREE",
    [K_ROLLBACKS] = "rollbacks", [K_UNDONE] = "undone_events", [K_SILENT] = "silent_events", [K_CKPTS] = "checkpoints",
    [K_RB_AT_CKPT] = "rollbacks_to_a_checkpoint_position", [K_RB_BETWEEN] = "rollbacks_strictly_between_checkpoints",
    [K_ANTI_LOCAL] = "anti_messages_local", [K_ANTI_BEFORE_EXTRACT] = "cancel_before_extract",
    [K_ANTI_AFTER_PROCESS] = "cancel_after_process", [K_ANTI_REQUEUED] = "cancel_while_rolled_back_and_requeued",
    [K_GVT_ROUNDS] = "gvt_values_reported", [K_FOSSILS] = "fossil_collections", [K_FOSSIL_THEN_RB] = "rollback_after_fossil_on_same_lp",
    [K_TIES] = "tie_groups_delivered", [K_IDENT_TIES] = "indistinguishable_tie_pairs", [K_ZERO_DELAY] = "zero_delay_events",
    [K_BIG_PAYLOAD] = "payload_gt_32_sent", [K_THREADS_GT_LPS] = "threads_gt_lps", [K_EVENTS_REF] = "reference_events",
    [K_STOP_RUNS] = "runs_with_RootsimStop", [K_TT_RUNS] = "runs_with_termination_time", [K_TRUE_AT_INIT] = "lps_true_at_init",
    [K_TRUE_AT_T0] = "lps_first_true_at_t0", [K_SPEC_TRUE_ROLLED_BACK] = "predicate_true_then_rolled_back",
    [K_LIB_DRAWS] = "library_rng_draws", [K_MEM_OPS] = "model_memory_ops", [K_OTHER_PROP_FAIL] = "other_property_oracle_failed",
    [K_HANGS] = "hangs", [K_STEPS_K] = "scheduler_ksteps", [K_SWITCHES_K] = "context_kswitches", [K_COMMITTED] = "committed_events_checked",
    [K_GVT_OPEN_AT_STOP] = "gvt_round_open_at_stop", [K_STATS_RECORDS] = "stats_records", [K_RB_DIGESTS] = "rollback_digests_checked",
    [K_LEFTOVER] = "queue_leftovers_at_shutdown", [K_BUDGET] = "budget_inconclusive", [K_EARLY_END] = "ended_by_termination_time",
    [K_RANKS] = "ranks", [K_REMOTE_SENT] = "remote_events_sent", [K_REMOTE_ANTI] = "remote_anti_messages", [K_EARLY_ANTI] = "anti_message_overtook_its_event",
    [K_EARLY_MATCH] = "event_annihilated_by_stored_early_anti", [K_REMOTE_ANTI_MATCHED] = "remote_anti_matched_processed_event",
    [K_NET_DELAYED] = "network_messages_delayed", [K_NET_OVERTAKES] = "network_stream_overtakes", [K_NET_TEST_SKIPPED] = "collective_completions_delayed",
    [K_NET_LEFTOVER] = "network_messages_never_received", [K_CROSS_RANK_REF] = "runs_with_several_ranks", [K_PRESET_TICK] = "preset_tick_chains",
    [K_PRESET_CASCADE] = "preset_cancelled_cascade_is_minimum",
    [K_GVT_BOUND_BY_ANTI] = "gvt_values_equal_to_a_just_extracted_anti_message", [K_ENDLESS] = "endless_models", [K_STATELESS_LPS] = "lps_without_state_pointer", [K_PRESET_STORM] = "preset_storm_at_timestamp_0"};

struct rt_ctx RT;
static char PROP[8] = "C01";

void rsv_setup(const char *prop)
{
	if(prop && prop[0])
		snprintf(PROP, sizeof PROP, "%s", prop);
}

/* a failure of an oracle that belongs to property `p` */
void rt_fail(const char *p, const char *fmt, ...)
{
	char buf[1400];
	va_list ap;
	va_start(ap, fmt);
	vsnprintf(buf, sizeof buf, fmt, ap);
	va_end(ap);
	if(strcmp(p, PROP)) {
		RT.res->cls[K_OTHER_PROP_FAIL]++;
		if(!RT.other_msg[0])
			snprintf(RT.other_msg, sizeof RT.other_msg, "[%s] %s", p, buf);
		return;
	}
	rsv_fail(RT.res, p, "%s", buf);
}

/* ---- decoding ------------------------------------------------------------------------------------------------ */
static void decode_spec(struct tape *t, struct gm_spec *g)
{
	memset(g, 0, sizeof *g);
	int c10 = !strcmp(PROP, "C10"), c07 = !strcmp(PROP, "C07"), c09 = !strcmp(PROP, "C09"), c08 = !strcmp(PROP, "C08");
	int c06 = !strcmp(PROP, "C06");
	int deep = getenv("RSV_DEEP") && atoi(getenv("RSV_DEEP")); /* thorough tier: wider bounds */
	g->n_lps = deep ? 1 + (3 + t_choice(t, 40)) % 40 : 1 + (3 + t_choice(t, 12)) % 12; /* exhausted tape: 4 LPs */
	g->seed = t_u32(t);
	g->time_mode = (uint8_t)t_choice(t, 3);
	g->lookahead_mode = (uint8_t)t_choice(t, 3);
	g->zero_delay = (uint8_t[]){0, 20, 60, 120}[t_choice(t, 4)];
	g->send_prob = (uint8_t[]){110, 60, 150, 200}[t_choice(t, 4)];
	g->dest_mode = (uint8_t)t_choice(t, 5);
	if(c07 && t_prob(t, 120))
		g->dest_mode = t_prob(t, 170) ? 2 : 4;
#ifdef RSV_E4
	if(g->dest_mode >= 3 && t_prob(t, 200))
		g->dest_mode = (uint8_t)t_choice(t, 2); /* cross-rank traffic */
#endif
	g->payload_mode = (uint8_t)t_choice(t, 4);
	g->n_rules = (uint8_t)(2 + t_choice(t, 7));
	g->hb_scale = (uint8_t[]){1, 1, 20, 100, 1, 7}[t_choice(t, 6)];
	g->chain_len = (uint8_t[]){0, 0, 12, 60, 200, 0, 30, 5}[t_choice(t, 8)];
	g->chain_start = (uint8_t[]){0, 255, 60, 160}[t_choice(t, 4)];
	g->relay_budget = (uint8_t[]){0, 0, 1, 3, 0, 2}[t_choice(t, 6)];
	for(unsigned r = 0; r < g->n_rules; r++) {
		struct gm_rule *ru = &g->rules[r];
		ru->n_act = (uint8_t)(1 + t_choice(t, 4));
		unsigned sends = 0;
		for(unsigned a = 0; a < ru->n_act; a++) {
			unsigned k = t_choice(t, c09 ? 6 : 5);
			struct gm_act *ac = &ru->act[a];
			ac->kind = k == 0 || k == 1 ? GA_SEND : k == 2 ? GA_MEM : k == 3 ? (c06 ? GA_SEND : GA_DRAW) : k == 4 ? GA_MEM : GA_DRAW;
			if(c09 && k == 4)
				ac->kind = GA_DRAW;
			if(ac->kind == GA_SEND && ++sends > 2)
				ac->kind = GA_DRAW;
			ac->a = t_u8(t);
			ac->b = t_u8(t);
			ac->c = t_u8(t);
		}
	}
	/* send_prob * sends must stay sub-critical (heartbeats aside): mean fan-out < 1 */
	if(g->send_prob > 120)
		for(unsigned r = 0; r < g->n_rules; r++) {
			unsigned sends = 0;
			for(unsigned a = 0; a < g->rules[r].n_act; a++)
				if(g->rules[r].act[a].kind == GA_SEND && ++sends > 1)
					g->rules[r].act[a].kind = GA_MEM;
		}
	unsigned goal_base = deep ? (unsigned[]){20, 5, 60, 150, 400, 250}[t_choice(t, 6)] : (unsigned[]){20, 5, 60, 150}[t_choice(t, 4)];
	/* scenario preset "tick chains" (about one case in six): integer ticks, every LP starts a long zero-delay chain at its
	 * tick, goals large enough that the LPs stay active - many events share a timestamp on different threads, GVT values
	 * coincide with event timestamps, and what is committed at exactly the GVT matters */
	unsigned pz = t_choice(t, 6);
	RT.preset = pz == 5;
	if(!strcmp(PROP, "C04") && (pz == 4 || pz == 3)) {
		/* scenario preset "cancelled cascade is the minimum" (C04 only, one case in three): sparse heartbeats and long
		 * zero-delay chains hopping between threads.  When the originator of a chain is rolled back, the chain is undone by
		 * a cascade of anti-messages, one in flight at a time, while every other LP is already beyond that timestamp: the
		 * only thing that holds the GVT down is a message that sits in nobody's queue for most of the time. */
		RT.preset = 2;
		g->hb_scale = (uint8_t[]){100, 20, 7}[t_choice(t, 3)];
		g->chain_len = (uint8_t[]){200, 60, 30}[t_choice(t, 3)];
		g->chain_start = (uint8_t[]){255, 160}[t_choice(t, 2)];
		goal_base = (unsigned[]){60, 150, 20}[t_choice(t, 3)];
		if(g->n_lps < 3)
			g->n_lps = 3 + t_choice(t, 6);
	}
	if(RT.preset == 1 && !c10 && !c07 && !c08) {
		g->time_mode = 1;
		g->chain_len = (uint8_t[]){30, 60, 200, 12}[t_choice(t, 4)];
		g->chain_start = (uint8_t[]){255, 160}[t_choice(t, 2)];
		g->hb_scale = 1;
		goal_base = (unsigned[]){150, 60}[t_choice(t, 2)];
		if(g->n_lps < 3)
			g->n_lps = 3 + t_choice(t, 6);
	}
	for(unsigned i = 0; i < g->n_lps; i++) {
		unsigned m = (3 + t_choice(t, c07 ? 6 : 12)) % (c07 ? 6 : 12); /* exhausted tape: an ordinary goal */
		if(m == 0)
			g->goal[i] = 0; /* true at init */
		else if(m == 1) {
			g->goal[i] = 1;
			g->t0_zero[i] = 1; /* first true at t = 0 */
		} else if(m == 2) {
			g->goal[i] = (uint16_t)(1 + t_choice(t, 3));
			g->t0_zero[i] = (uint8_t)t_choice(t, 2);
		} else
			g->goal[i] = (uint16_t)(goal_base / 2 + t_choice(t, goal_base));
	}
	if(c07 && g->dest_mode == 2 && g->n_lps >= 2) {
		/* "late victim": LP 0 is the fan-in target of the others and finishes last, so the event that makes its predicate
		 * true usually comes from another LP and may be cancelled afterwards by its sender */
		unsigned mx = 0;
		for(unsigned i = 1; i < g->n_lps; i++)
			mx = g->goal[i] > mx ? g->goal[i] : mx;
		g->goal[0] = (uint16_t)(mx * (2 + t_choice(t, 3)) + 3);
		g->t0_zero[0] = 0;
		if(t_prob(t, 170))
			g->victim_nohb = 1; /* goal calibrated against the reference run, see rsv_case() */
	}
	if(c07 && g->n_lps >= 3 && t_prob(t, 50)) {
		/* "early terminated, still active": every LP satisfies its predicate after 1..3 events but keeps working for a long
		 * time; LP 0 (no heartbeat, small goal) is completed by a rare drip that its sender may cancel; the next drip is far */
		g->dest_mode = 4;
		g->drip_k = (uint8_t[]){20, 60, 8, 120}[t_choice(t, 4)];
		g->post_goal = (uint16_t[]){150, 60, 40}[t_choice(t, 3)];
		for(unsigned i = 0; i < g->n_lps; i++) {
			g->goal[i] = (uint16_t)(1 + t_choice(t, 3));
			g->t0_zero[i] = 0;
		}
		g->victim_nohb = 2; /* 2: no calibration of the victim's goal */
	} else if(c07 && g->dest_mode == 4 && g->n_lps >= 3 && t_prob(t, 128)) {
		/* "starving victim": LP 0 has no heartbeat and a small goal; the event that completes it is a drip from another LP,
		 * which that LP may cancel later; nothing else is pending for the victim then */
		g->victim_nohb = 1;
		/* goal of the victim ~ the number of drips it can expect (each other LP drips once every 3 + seed % 13 handled
		 * events), so that it completes about when the others finish and the completing drip is among the last ones */
		unsigned sum = 0, k = 3 + (unsigned)(g->seed % 13);
		for(unsigned i = 1; i < g->n_lps; i++)
			sum += g->goal[i];
		unsigned expect = sum / k;
		g->goal[0] = (uint16_t)(1 + expect * (5 + t_choice(t, 6)) / 10);
		g->t0_zero[0] = 0;
	} else if(c07 && g->dest_mode == 4 && t_prob(t, 200)) {
		g->goal[0] = 1;
		g->t0_zero[0] = 1;
	}
	if((c07 || c08 || !strcmp(PROP, "C03") || !strcmp(PROP, "C04")) && g->victim_nohb != 2)
		g->post_goal = (uint16_t[]){0, 0, 25, 100, 0, 50}[t_choice(t, 6)]; /* LPs stay active after their predicate holds */
	g->init_sends = (uint8_t)t_choice(t, 4);
	g->init_bufs = (uint8_t)t_choice(t, 4);
	g->stop_lp = -1;
	if((c08 && t_prob(t, 140)) || (!c10 && !c07 && strcmp(PROP, "C01") && strcmp(PROP, "C09") && strcmp(PROP, "C02") && t_prob(t, 24))) {
		g->stop_lp = (int32_t)t_choice(t, g->n_lps);
		g->stop_at = t_choice(t, 4) == 0 ? 0 : 1 + t_choice(t, goal_base);
		if(g->goal[g->stop_lp] && g->stop_at >= g->goal[g->stop_lp])
			g->stop_at = g->goal[g->stop_lp] - (g->goal[g->stop_lp] > 1);
	}
	/* C07 "storm at timestamp 0" (no tape byte; one case in three): every LP but LP 0 has its first heartbeat at t = 0 and
	 * a goal of 1, so it terminates at timestamp 0 and stays active long afterwards (post_goal); zero-delay children are
	 * frequent, so events at t = 0 are executed speculatively, undone by stragglers that carry timestamp 0 too, and their
	 * children cancelled by anti-messages at timestamp 0.  LP 0 has no heartbeat and a goal of 1 or 2: when the event that
	 * completes it at t = 0 is one of those cancelled children, its predicate was true at timestamp 0 only speculatively,
	 * while everybody else is done at 0 for good */
	if(c07 && (g->seed % 3 == 2 || getenv("RSV_FORCE_STORM")) && g->n_lps >= 3) {
		g->victim_nohb = 2;
		g->post_goal = 60;
		g->dest_mode = 0;
		g->init_zero = 1;
		g->init_sends = (uint8_t)((g->seed >> 5) & 1);
		g->zero_delay = 120;
		if(g->send_prob < 110)
			g->send_prob = 150;
		g->stop_lp = -1;
		for(unsigned i = 0; i < g->n_lps; i++) {
			g->goal[i] = 1;
			g->t0_zero[i] = 1;
		}
		g->goal[0] = (uint16_t)(1 + ((g->seed >> 9) & 1));
	}
	/* "router" LPs that never call SetState (no tape byte, derived from the model seed; only for properties without saved
	 * whole-runtime tapes): the library generator is their only rollbackable state */
	if(!strcmp(PROP, "C09") || !strcmp(PROP, "C05") || !strcmp(PROP, "C01") || !strcmp(PROP, "C03") || !strcmp(PROP, "C02"))
		for(unsigned i = 1; i < g->n_lps; i++)
			g->stateless[i] = ((g->seed >> (i % 20)) & 7) == 5 && (g->seed & 3) != 0;
	/* C08 liveness family (no tape byte, so that saved tapes keep their meaning): about one non-stopped case in five is
	 * "endless" - LPs never freeze, heartbeats never stop - so the run returns only because termination detection ends it */
	if(c08 && g->stop_lp < 0 && !g->victim_nohb && !RT.free_mode && g->seed % 5 == 3) {
		g->endless = 1;
		g->post_goal = 0xffff;
	}
}

static void decode_cfg(struct tape *t, struct rt_cfg *c, const struct gm_spec *g)
{
	memset(c, 0, sizeof *c);
	int c10 = !strcmp(PROP, "C10"), c07 = !strcmp(PROP, "C07"), c08 = !strcmp(PROP, "C08");
	c->serial = c10 ? 1 : (!strcmp(PROP, "C20") && t_prob(t, 30));
	int deep = getenv("RSV_DEEP") && atoi(getenv("RSV_DEEP"));
	c->n_threads = deep ? 1 + (1 + t_choice(t, 12)) % 12 : 1 + (1 + t_choice(t, 8)) % 8; /* exhausted tape: 2 threads */
	if(t_prob(t, 40))
		c->n_threads = g->n_lps + 1 + t_choice(t, 3) > 8 ? 8 : g->n_lps + 1 + t_choice(t, 3); /* more threads than LPs */
	c->ckpt_interval = (unsigned[]){0, 1, 2, 3, 5, 8, 64, 1}[t_choice(t, 8)];
	c->gvt_period = (unsigned[]){100, 0, 1, 10, 1000, 30, 100, 10}[t_choice(t, 8)];
	c->core_binding = t_prob(t, 30);
	c->termination_time = 0;
	if(c10 ? t_prob(t, 100) : ((c07 || c08 || !strcmp(PROP, "C03") || !strcmp(PROP, "C04") || !strcmp(PROP, "C20")) && t_prob(t, 60)))
		c->termination_time = (double[]){3.0, 0.5, 10.0, 40.0, 1e-9, 7.25}[t_choice(t, 6)];
	c->prng_seed = t_prob(t, 30) ? (t_prob(t, 128) ? 0 : UINT64_MAX) : t_u32(t);
	c->stats = !strcmp(PROP, "C20") || t_prob(t, 16);
	/* schedule */
	c->mode = c->serial ? RSV_MODE_DET : (RT.free_mode ? RSV_MODE_FREE : RSV_MODE_DET);
	c->sched.mode = c->mode;
	c->sched.seed = t_u32(t);
	c->sched.switch_per_1024 = (unsigned[]){64, 16, 200, 512, 4, 900}[t_choice(t, 6)];
	c->sched.burst_per_64k = (unsigned[]){0, 0, 40, 400, 8}[t_choice(t, 5)];
	c->sched.burst_max = (unsigned[]){3000, 300, 20000}[t_choice(t, 3)];
	unsigned hs = t_choice(t, 5);
	c->sched.hot_sites = hs == 1 ? (1U << RSV_SITE_FLAG_PROCESSED | 1U << RSV_SITE_FLAG_ANTI | 1U << RSV_SITE_FLAG_UNPROCESSED)
	                   : hs == 2 ? (1U << RSV_SITE_GVT_PHASE | 1U << RSV_SITE_MAIN_LOOP)
	                   : hs == 3 ? (1U << RSV_SITE_QUEUE_INSERT_CAS | 1U << RSV_SITE_QUEUE_SWAP | 1U << RSV_SITE_QUEUE_INSERT)
	                             : 0;
	if(!strcmp(PROP, "C04") && hs == 0 && (c->sched.seed & 1))
		/* C04: every other case without hot sites interleaves finely around the reduction (steps of the GVT algorithm,
		 * message extraction, buffer insertion): the windows of the thread-level reduction are one loop iteration wide */
		c->sched.hot_sites = 1U << RSV_SITE_GVT_PHASE | 1U << RSV_SITE_MAIN_LOOP | 1U << RSV_SITE_PROCESS_MSG | 1U << RSV_SITE_QUEUE_INSERT;
	if(getenv("RSV_ATOMIC_STEPS") && (c->sched.seed & 2))
		c->sched.hot_sites |= 1U << 15; /* atomic-step variant: every atomic operation of the core is a hot site in half of the cases */
	c->sched.clock_div = (unsigned[]){4, 1, 16, 64}[t_choice(t, 4)];
	c->sched.batch = (unsigned[]){0, 8, 1, 0, 3, 24, 0, 2}[t_choice(t, 8)];
	if(!strcmp(PROP, "C03") || !strcmp(PROP, "C04") || !strcmp(PROP, "C20") || !strcmp(PROP, "C13")) {
		/* history oracles need many GVT rounds per run */
		c->sched.batch = (unsigned[]){1, 2, 1, 3, 8, 2, 0, 4}[t_choice(t, 8)];
		if(c->gvt_period > 10)
			c->gvt_period = (unsigned[]){0, 1, 10}[t_choice(t, 3)];
	}
	c->sched.budget = 20000000ULL;
	c->sched.noprogress = getenv("RSV_NOPROGRESS") ? strtoull(getenv("RSV_NOPROGRESS"), NULL, 10) : 600000ULL;
	c->sched.free_perturb_per_1024 = (unsigned[]){0, 20, 200}[t_choice(t, 3)];
	if(c07 && g->victim_nohb) {
		c->sched.batch = (unsigned[]){1, 2, 3, 8}[t_choice(t, 4)];
		c->gvt_period = (unsigned[]){0, 1, 10}[t_choice(t, 3)];
		if(c->n_threads < 2)
			c->n_threads = 2 + t_choice(t, 3);
	}
	if(RT.preset && !c10 && !c07 && !c08) {
		c->ckpt_interval = (unsigned[]){1, 1, 2, 3}[t_choice(t, 4)];
		c->sched.batch = (unsigned[]){1, 2, 3, 8}[t_choice(t, 4)];
		c->gvt_period = (unsigned[]){0, 1, 10}[t_choice(t, 3)];
		if(c->n_threads < 2)
			c->n_threads = 2 + t_choice(t, 3);
	}
	c->ranks = 1;
#ifdef RSV_E4
	c->mode = c->sched.mode = RSV_MODE_DET; /* the in-process MPI is only defined under the baton scheduler */
	c->serial = 0;
	c->ranks = 1 + (1 + t_choice(t, 4)) % 4; /* exhausted tape: 2 ranks */
	if(c->ranks > g->n_lps)
		c->ranks = g->n_lps; /* a rank without LPs runs no thread and cannot take part in the reductions: outside the domain */
	c->n_threads = 1 + t_choice(t, 3);      /* per rank */
	int c04 = !strcmp(PROP, "C04");
	if(c04 && t_prob(t, 128))
		c->n_threads = 1; /* single-thread ranks: every consequence of an extracted message crosses a rank boundary or stays put */
	c->stats = !strcmp(PROP, "C20"); /* no tape byte: saved E4 tapes keep their meaning */
	c->core_binding = 0;
	c->net_delay_max = (unsigned[]){0, 200, 2000, 20000, 60}[t_choice(t, 5)];
	c->net_delay_prob = (unsigned[]){128, 30, 255}[t_choice(t, 3)];
	c->net_test_skip = (unsigned[]){0, 128, 230}[t_choice(t, 3)];
	if(c04 && c->net_test_skip == 0 && c->sched.seed % 3)
		c->net_test_skip = 230; /* C04: slow collectives keep the windows of the node-level reduction open */
	c->net_reorder = (unsigned[]){128, 0, 255}[t_choice(t, 3)];
#endif
}

/* ---- hang handling --------------------------------------------------------------------------------------------- */
extern void rsv_emit_and_exit(const struct rsv_result *r) __attribute__((weak));

static void on_hang(const char *why)
{
	struct rsv_result *res = RT.res;
	char sig[400] = "";
	size_t o = 0;
	int n = rsv_nthreads_created();
	for(int i = 0; i < n && o + 40 < sizeof sig; i++)
		o += (size_t)snprintf(sig + o, sizeof sig - o, "%s[thr%d rank%d rid%d %s site=%d stage=%d]", i ? " " : "", i, rsv_thread_rank(i), rsv_thread_rid(i),
		    rsv_thread_done(i) ? "done" : "live", rsv_last_site(i), rsv_last_stage(i));
	res->cls[K_HANGS]++;
	res->cls[K_STEPS_K] = rsv_steps() / 1000;
	if(getenv("RSV_HANG_PAUSE")) { /* debugging aid: lets a debugger attach to the hung process */
		fprintf(stderr, "RSV hang pause pid=%d %s\n", (int)getpid(), sig);
		sleep(600);
	}
	if(!strcmp(why, "budget")) {
		/* progress was being made: not a proven hang */
		res->verdict = RSV_INCONCLUSIVE;
		res->cls[K_BUDGET]++;
		snprintf(res->msg, sizeof res->msg, "step budget exhausted while trace events were still being produced (inconclusive): %s", sig);
	} else {
		rt_hang_classify(why, sig);
	}
	if(rsv_emit_and_exit)
		rsv_emit_and_exit(res);
	_exit(78);
}

/* ends the case at once with the result as it stands (used by oracles that prove a violation while the run is still going) */
void rt_abort_case(void)
{
	RT.res->cls[K_STEPS_K] = rsv_steps() / 1000;
	if(rsv_emit_and_exit)
		rsv_emit_and_exit(RT.res);
	_exit(78);
}

#ifdef RSV_E4
static struct simulation_configuration e4_conf;
static int e4_rc[E4_MAXR];
static void *rank_main(void *arg)
{
	int k = (int)(intptr_t)arg;
	rsv_set_rank(k);
	if(e4_RootsimInit(k, &e4_conf)) {
		e4_rc[k] = -100;
		return NULL;
	}
	e4_rc[k] = e4_RootsimRun(k);
	return NULL;
}
#endif

/* ---- the case ---------------------------------------------------------------------------------------------------- */
int rsv_case(const uint8_t *tape, size_t len, struct rsv_result *res)
{
	struct tape T = {tape, len, 0}, *t = &T;
	memset(&RT, 0, sizeof RT);
	RT.res = res;
	RT.prop = PROP;
	RT.free_mode = getenv("RSV_FREE") && atoi(getenv("RSV_FREE"));
	struct gm_spec *g = &gm_spec;
	decode_spec(t, g);
	decode_cfg(t, &RT.cfg, g);
	struct rt_cfg *c = &RT.cfg;

	if(g->victim_nohb == 1 && g->n_lps > 1) {
		/* calibration: let the victim run unbounded once, then give it a goal a few events below what it ever receives, so
		 * that the event completing it is one of the last it gets */
		uint16_t keep = g->goal[0];
		g->goal[0] = 60000;
		refexec_run(g, c->prng_seed, &RT.ref, 400000);
		size_t n0 = ref_gm_out.rep[0].handled; /* events that count towards the goal (chain events do not) */
		int bad = RT.ref.truncated || RT.ref.contract_breaches;
		refexec_free(&RT.ref);
		unsigned off = (unsigned[]){0, 0, 1, 2}[(unsigned)(g->seed >> 8) % 4];
		g->goal[0] = bad || n0 < 2 ? keep : (uint16_t)(n0 > off + 1 ? n0 - off : 1);
	}
	/* reference run */
	refexec_run(g, c->prng_seed, &RT.ref, 400000);
	if(RT.ref.truncated || RT.ref.contract_breaches) {
		res->verdict = RSV_DISCARD;
		snprintf(res->msg, sizeof res->msg, "generator: model invalid (truncated=%d, contract breaches=%llu: %s)", RT.ref.truncated,
		    (unsigned long long)RT.ref.contract_breaches, RT.ref.breach);
		return res->verdict;
	}
	res->cls[K_EVENTS_REF] = RT.ref.total_events;
	res->cls[K_TIES] = RT.ref.tie_groups;
	res->cls[K_IDENT_TIES] = RT.ref.identical_ties;
	res->cls[K_ZERO_DELAY] = RT.ref.zero_delay;
	for(unsigned i = 0; i < g->n_lps; i++) {
		res->cls[K_TRUE_AT_INIT] += RT.ref.tau[i] == -1.0;
		res->cls[K_TRUE_AT_T0] += RT.ref.tau[i] == 0.0;
	}
	res->cls[K_STOP_RUNS] = g->stop_lp >= 0;
	res->cls[K_TT_RUNS] = c->termination_time != 0;

	rsv_sample(res, "lps=%u seed=%llu time=%u la=%u zd=%u sp=%u dest=%u pl=%u rules=%u hb=%u chain=%u/%u post=%u%s relay=%u goals=[", g->n_lps, (unsigned long long)g->seed,
	    g->time_mode, g->lookahead_mode, g->zero_delay, g->send_prob, g->dest_mode, g->payload_mode, g->n_rules, g->hb_scale, g->chain_len, g->chain_start, g->post_goal, g->endless ? "(endless)" : "", g->relay_budget);
	for(unsigned i = 0; i < g->n_lps && i < 12; i++)
		if(g->stateless[i])
			rsv_sample(res, "%srouter", i ? "," : "");
		else
			rsv_sample(res, "%s%u%s", i ? "," : "", g->goal[i], g->t0_zero[i] ? "@0" : "");
	rsv_sample(res, "] stop=(%d,%u) | ranks=%u net=%u/%u/%u/%u | %s thr=%u ckpt=%u gvt=%u tt=%g bind=%d stats=%d seed=%llu | sched seed=%llu sw=%u burst=%u/%u hot=%#x div=%u batch=%u | ref ev=%zu",
	    g->stop_lp, g->stop_at, c->ranks, c->net_delay_max, c->net_delay_prob, c->net_test_skip, c->net_reorder, c->serial ? "serial" : c->mode == RSV_MODE_DET ? "DET" : "FREE", c->n_threads, c->ckpt_interval,
	    c->gvt_period, c->termination_time, c->core_binding, c->stats, (unsigned long long)c->prng_seed,
	    (unsigned long long)c->sched.seed, c->sched.switch_per_1024, c->sched.burst_per_64k, c->sched.burst_max, c->sched.hot_sites,
	    c->sched.clock_div, c->sched.batch, RT.ref.total_events);

	/* the real runtime */
	memset(&gm_out, 0, sizeof gm_out);
	gm_out.log_enabled = c->serial;
	rsv_rt_init(&c->sched);
	rsv_on_hang = on_hang;
	rt_oracles_begin();
	char stats_path[256] = "";
	if(c->stats) {
		const char *d = getenv("RSV_SCRATCH");
		snprintf(stats_path, sizeof stats_path, "%s/stats-%d", d ? d : "/var/tmp", (int)getpid());
	}
	struct simulation_configuration conf = {.lps = g->n_lps, .n_threads = c->serial ? 0 : c->n_threads,
	    .termination_time = c->termination_time, .gvt_period = c->gvt_period, .log_level = LOG_SILENT, .logfile = NULL,
	    .stats_file = c->stats ? stats_path : NULL, .ckpt_interval = c->ckpt_interval, .prng_seed = c->prng_seed,
	    .core_binding = c->core_binding, .serial = c->serial, .dispatcher = (ProcessEvent_t)gm_ProcessEvent,
	    .committed = (CanEnd_t)gm_CanEnd};
	res->cls[c->serial ? K_RUNS_SERIAL : c->mode == RSV_MODE_DET ? K_RUNS_DET : K_RUNS_FREE] = 1;
	res->cls[K_THREADS_GT_LPS] = !c->serial && c->n_threads * c->ranks > g->n_lps;
	res->cls[K_ENDLESS] = g->endless;
	res->cls[K_PRESET_STORM] = g->init_zero && g->victim_nohb == 2;
	for(unsigned i = 0; i < g->n_lps; i++)
		res->cls[K_STATELESS_LPS] += g->stateless[i];
	res->cls[K_PRESET_TICK] = RT.preset == 1;
	res->cls[K_PRESET_CASCADE] = RT.preset == 2;
	int rc = 0;
#ifdef RSV_E4
	{
		struct fm_cfg fc = {.nranks = (int)c->ranks, .delay_max = c->net_delay_max, .delay_prob = c->net_delay_prob,
		    .test_skip = c->net_test_skip, .reorder_streams = c->net_reorder};
		fm_configure(&fc);
		e4_conf = conf;
		res->cls[K_RANKS] = c->ranks;
		res->cls[K_CROSS_RANK_REF] = c->ranks > 1;
		for(unsigned k = 0; k < c->ranks; k++)
			rsv_spawn(rank_main, (void *)(intptr_t)k);
		rsv_join_all();
		for(unsigned k = 0; k < c->ranks; k++)
			if(e4_rc[k])
				rc = e4_rc[k];
	}
#else
	if(RootsimInit(&conf)) {
		rt_fail(PROP, "RootsimInit refused a valid configuration");
		return res->verdict;
	}
	rc = RootsimRun();
#endif
	rsv_on_hang = NULL;
	res->cls[K_STEPS_K] = rsv_steps() / 1000;
	res->cls[K_SWITCHES_K] = rsv_switches() / 1000;
	res->cls[K_LIB_DRAWS] = ref_gm_out.lib_draws;
	res->cls[K_MEM_OPS] = ref_gm_out.mem_ops;
	res->cls[K_BIG_PAYLOAD] = ref_gm_out.big_payload_sent;
	if(rc)
		rt_fail(PROP, "RootsimRun returned %d", rc);

	rt_oracles_end(stats_path);
	if(c->stats) {
		char p[300];
		snprintf(p, sizeof p, "%s.bin", stats_path);
		unlink(p);
	}
	if(res->verdict == RSV_PASS && RT.other_msg[0] && strlen(res->sample) + 40 < sizeof res->sample)
		rsv_sample(res, " | other-property oracle: %.300s", RT.other_msg);
	return res->verdict;
}
