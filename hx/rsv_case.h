/* Interface between the generation engines (rapidcheck driver drv/driver.cpp, libFuzzer
 * entry fz/fuzz_entry.c, plain replay) and a harness (hx/h_*.c).
 *
 * A *case* is a byte tape.  The harness decodes the tape into a structured input
 * (operation sequence, model, configuration, schedule ...), runs it against the real
 * code of /repo, evaluates the oracle and fills in a result.  Decoders are total: any
 * tape is a valid case; an exhausted tape yields zeros, and zero always selects the
 * simplest alternative, so that shrinking the tape (dropping / lowering bytes) shrinks
 * the case.
 */
#ifndef RSV_CASE_H
#define RSV_CASE_H
#include <stddef.h>
#include <stdint.h>
#include <stdio.h>
#include <string.h>
#include <stdarg.h>

#define RSV_NCLS 64

enum rsv_verdict {
	RSV_PASS = 0,
	RSV_FAIL = 1,        /* the property is violated on this case */
	RSV_DISCARD = 2,     /* case outside the input domain / nothing to check */
	RSV_KNOWN = 3,       /* case hits a listed known finding (key in .known): excluded, counted */
	RSV_INCONCLUSIVE = 4 /* budget hit without proof of a violation */
};

struct rsv_result {
	int32_t verdict;
	uint32_t nontrivial;  /* 1 if the case is non-trivial by the harness' stated rule */
	uint64_t fingerprint; /* structural fingerprint, used to count DISTINCT non-trivial cases */
	uint64_t cls[RSV_NCLS]; /* class counters, names in rsv_class_names */
	char prop[8];         /* property the failure belongs to (a harness may serve several) */
	char known[160];      /* key of the known finding that was hit (verdict RSV_KNOWN) */
	char msg[1536];       /* failure message */
	char sample[1024];    /* human-readable rendering of the decoded case */
};

/* provided by every harness */
extern const char *rsv_harness_name;
extern const char *rsv_class_names[RSV_NCLS];
extern const char *rsv_rule;          /* generation + non-triviality rule, for the evidence */
extern int rsv_fork_mode;             /* 1: every case must run in a fresh forked child */
extern unsigned rsv_default_tape_len; /* nominal tape length at full size */
int rsv_case(const uint8_t *tape, size_t len, struct rsv_result *res);
/* optional: called once in the parent before the first case (argument: property id) */
/* void rsv_setup(const char *prop);  -- optional (weak in the driver) */

/* ---- tape reader ------------------------------------------------------- */
struct tape {
	const uint8_t *p;
	size_t len, pos;
};

static inline uint8_t t_u8(struct tape *t)
{
	return t->pos < t->len ? t->p[t->pos++] : 0;
}
static inline uint32_t t_u16(struct tape *t)
{
	uint32_t a = t_u8(t);
	return a | (uint32_t)t_u8(t) << 8;
}
static inline uint32_t t_u32(struct tape *t)
{
	uint32_t a = t_u16(t);
	return a | t_u16(t) << 16;
}
static inline uint64_t t_u64(struct tape *t)
{
	uint64_t a = t_u32(t);
	return a | (uint64_t)t_u32(t) << 32;
}
/* uniform-ish choice in [0, n) ; 0 when the tape is exhausted; n >= 1 */
static inline uint32_t t_choice(struct tape *t, uint32_t n)
{
	if(n <= 1)
		return 0;
	if(n <= 256)
		return t_u8(t) % n;
	if(n <= 65536)
		return t_u16(t) % n;
	return t_u32(t) % n;
}
/* inclusive range */
static inline int64_t t_range(struct tape *t, int64_t lo, int64_t hi)
{
	uint64_t span = (uint64_t)(hi - lo) + 1;
	if(span == 0)
		return (int64_t)t_u64(t);
	if(span <= 0xffffffffULL)
		return lo + (int64_t)t_choice(t, (uint32_t)span);
	return lo + (int64_t)(t_u64(t) % span);
}
/* true with probability num/256 ; false when exhausted */
static inline int t_prob(struct tape *t, unsigned num)
{
	unsigned b = t_u8(t);
	return b + num >= 256;
}
static inline int t_left(const struct tape *t)
{
	return t->pos < t->len;
}

/* ---- helpers ----------------------------------------------------------- */
static inline uint64_t rsv_mix(uint64_t h, uint64_t v)
{
	h ^= v + 0x9e3779b97f4a7c15ULL + (h << 6) + (h >> 2);
	h *= 0xbf58476d1ce4e5b9ULL;
	h ^= h >> 29;
	return h;
}
static inline uint64_t rsv_splitmix(uint64_t *s)
{
	uint64_t z = (*s += 0x9e3779b97f4a7c15ULL);
	z = (z ^ (z >> 30)) * 0xbf58476d1ce4e5b9ULL;
	z = (z ^ (z >> 27)) * 0x94d049bb133111ebULL;
	return z ^ (z >> 31);
}
static inline uint64_t rsv_hash_bytes(uint64_t h, const void *p, size_t n)
{
	const unsigned char *c = (const unsigned char *)p;
	for(size_t i = 0; i < n; i++)
		h = (h ^ c[i]) * 0x100000001b3ULL;
	return h ^ (h >> 31);
}

#if defined(__GNUC__)
__attribute__((format(printf, 3, 4)))
#endif
static inline int rsv_fail(struct rsv_result *r, const char *prop, const char *fmt, ...)
{
	if(r->verdict == RSV_FAIL)
		return RSV_FAIL; /* keep the first failure */
	r->verdict = RSV_FAIL;
	snprintf(r->prop, sizeof r->prop, "%s", prop);
	va_list ap;
	va_start(ap, fmt);
	vsnprintf(r->msg, sizeof r->msg, fmt, ap);
	va_end(ap);
	return RSV_FAIL;
}
#if defined(__GNUC__)
__attribute__((format(printf, 2, 3)))
#endif
static inline void rsv_sample(struct rsv_result *r, const char *fmt, ...)
{
	size_t l = strlen(r->sample);
	if(l + 2 >= sizeof r->sample)
		return;
	va_list ap;
	va_start(ap, fmt);
	vsnprintf(r->sample + l, sizeof r->sample - l, fmt, ap);
	va_end(ap);
}
#endif
