/* Reference environment: the API the GM_REF copy of the model is compiled against, and the reference executor. */
#ifndef REFEXEC_H
#define REFEXEC_H
#include <stdbool.h>
#include <stddef.h>
#include <stdint.h>

#include "gm_model.h"

extern void ref_ScheduleNewEvent(uint64_t receiver, double timestamp, unsigned event_type, const void *event_content,
    unsigned event_size);
extern void ref_SetState(void *new_state);
extern void *ref_rs_malloc(size_t req_size);
extern void *ref_rs_calloc(size_t nmemb, size_t size);
extern void ref_rs_free(void *ptr);
extern void *ref_rs_realloc(void *ptr, size_t req_size);
extern double ref_Random(void);
extern uint64_t ref_RandomU64(void);
extern double ref_Poisson(void);
extern double ref_Normal(void);
extern int ref_RandomRange(int min, int max);
extern int ref_RandomRangeNonUniform(int x, int min, int max);
extern double ref_Gamma(unsigned ia);
extern unsigned ref_Zipf(double skew, unsigned limit);
extern void ref_RootsimStop(void);

/* one delivered event of the reference run */
struct ref_ev {
	uint32_t lp;
	uint32_t type, size;
	double t;
	uint64_t plhash;
	uint64_t digest_after; /* digest of the LP state after the event */
};

struct ref_result {
	struct ref_ev *seq[GM_MAXLP]; /* per-LP delivery sequence, LP_INIT included as the first element */
	size_t seq_n[GM_MAXLP];
	uint64_t digest_at_tau[GM_MAXLP]; /* state digest when the predicate first held */
	double tau[GM_MAXLP];             /* timestamp at which the predicate first held; -1: at init; +inf: never */
	size_t tau_global[GM_MAXLP];      /* 1-based global index of the event at which it first held (0: at init) */
	size_t own_after[GM_MAXLP];       /* 1-based global index of the LP's first own event at/after that point (0: none) */
	uint64_t fini_digest[GM_MAXLP];   /* what LP_FINI reports when run to the natural end */
	size_t total_events;
	size_t tie_groups;        /* groups of >=2 different events with equal timestamp delivered to one LP */
	size_t identical_ties;    /* pairs of events the order cannot distinguish (same content), same LP */
	size_t zero_delay;        /* events delivered at the timestamp of the event that scheduled them */
	size_t max_pending;
	double stop_time;         /* timestamp of the event whose handler called RootsimStop (inf: none) */
	size_t stop_index;        /* global index of that event */
	double last_time;
	int truncated;            /* hit the safety cap: the model did not die out (generator bug) */
	int horizon;              /* endless model: stopped on purpose some events after every predicate held */
	uint64_t contract_breaches;
	char breach[240]; /* the first one, for the generator-bug report */
	struct ref_ev *global;    /* global delivery order (LP_INIT excluded) */
	size_t global_n;
};

extern void refexec_run(const struct gm_spec *spec, uint64_t prng_seed, struct ref_result *out, size_t max_events);
extern void refexec_free(struct ref_result *r);
#endif
