/* Oracles of the whole-runtime campaign (E3): in-vivo rollback digests, end-state comparison with the reference
 * executor, and history invariants over the hook trace.  White-box reads of the core (lps[], p_msgs) are used
 * only to locate data; what is compared is stated by the properties. */
#define _GNU_SOURCE
#include <math.h>
#include <stdlib.h>
#include <string.h>

#include <ROOT-Sim.h>
#include <core/core.h>
#include <lp/lp.h>
#include <lp/process.h>
#include <verif/rsv.h>

#include "rt_common.h"
#ifdef RSV_E4
#include "e4_api.h"
#include "fakempi/mpi.h"
#define LPS(rank) e4_lps(rank)
#else
#define LPS(rank) lps
#endif

#define TRACE_CAP 700000

/* ---- known findings ------------------------------------------------------------------------------------------- */
int rt_known(const char *key)
{
	const char *k = getenv("RSV_KNOWN");
	if(!k || !*k)
		return 0;
	size_t n = strlen(key);
	for(const char *p = k; p && *p;) {
		const char *e = strchr(p, ',');
		size_t l = e ? (size_t)(e - p) : strlen(p);
		if(l == n && !strncmp(p, key, n))
			return 1;
		p = e ? e + 1 : NULL;
	}
	return 0;
}

/* ---- in-vivo rollback digest (C05) ------------------------------------------------------------------------------ */
struct dstack {
	uint64_t *d;
	uint8_t *frozen;
	size_t n, cap;
	uint64_t base_digest;
	int have_base;
	int fossil_seen, rolled_since_fossil;
	unsigned fossils_with_rb_between;
	/* checkpoint reference positions (current coordinates) */
	unsigned ck[512];
	unsigned nck;
};
static struct dstack DS[GM_MAXLP];
static _Atomic int in_rollback[RSV_MAXT];
static double cb_max_gvt; /* largest GVT reported, tracked by the call-back (independent of the trace buffer) */
static _Atomic uint64_t n_rb_digest, n_rb_at, n_rb_between, n_fossil_then_rb, n_spec_true_rb, n_silent_send_leak;

static uint64_t lp_digest(const struct lp_ctx *lp)
{
	uint64_t h = gm_state_digest(lp->state_pointer);
	const uint64_t *s = lp->rng_ctx->state;
	h = rsv_mix(h, s[0]);
	h = rsv_mix(h, s[1]);
	h = rsv_mix(h, s[2]);
	return rsv_mix(h, s[3]);
}

static unsigned count_past(const struct lp_ctx *lp, unsigned upto)
{
	unsigned k = 0;
	for(unsigned i = 0; i < upto && i < array_count(lp->p.p_msgs); i++)
		k += is_msg_past(array_get_at(lp->p.p_msgs, i));
	return k;
}

/* ---- C08 on endless models: the run must return within a bounded amount of work once it may ---------------------------
 * The model never dies out, so RootsimRun returns only because termination detection ends it.  Argument for the bound
 * (DET mode; one thread at a time): let P be the first GVT value above tau_all = max_i tau_i (sequential time at which
 * the predicate of LP i first holds) that worker 0 of rank 0 is told.  From the moment that value was computed every LP
 * has executed, for good, the event that makes its predicate true, so no LP "becomes true" again afterwards and no
 * thread's max_t (largest speculative termination time) grows any more: it is at most T_hi, the largest timestamp
 * executed before P.  Every thread therefore votes when it is told a GVT above max(tau_all, T_hi) - or at or above
 * the termination time - and a round needs all threads, so after one more round at most everybody has voted; the
 * termination message then only needs to be delivered (in-process MPI: at most net_delay_max scheduler steps, then the
 * next poll).  40 further qualifying rounds (plus, on several ranks, 4 x net_delay_max + 200000 steps) without returning
 * is reported. */
/* an oracle that serves two properties: labelled `alt` when that is the property being checked, `dflt` otherwise */
static const char *lab(const char *dflt, const char *alt)
{
	return !strcmp(RT.prop, alt) ? alt : dflt;
}

static int lv_on;
static double lv_tau_all, lv_max_proc_t, lv_t_hi;
static unsigned lv_rounds;
static uint64_t lv_step0;
enum { LV_ROUNDS = 40 };

static void liveness_on_gvt(double g)
{
	/* g == SIMTIME_MAX: nothing is pending anywhere and "GVT < termination time" is false: every thread votes, in any model */
	int cond = (RT.cfg.termination_time > 0 && g >= RT.cfg.termination_time) || g >= SIMTIME_MAX;
	if(gm_spec.endless && g > lv_tau_all) {
		if(lv_t_hi < 0)
			lv_t_hi = lv_max_proc_t;
		cond |= g > lv_t_hi;
	}
	if(!cond)
		return;
	if(!lv_rounds++)
		lv_step0 = rsv_steps();
	if(lv_rounds < LV_ROUNDS)
		return;
	if(RT.cfg.ranks > 1 && rsv_steps() - lv_step0 < 4ULL * RT.cfg.net_delay_max + 200000ULL)
		return;
	RT.res->cls[K_GVT_ROUNDS] = lv_rounds;
	rt_fail("C08",
	    "RootsimRun did not return: worker 0 has been told %u GVT values (latest %a) that make every thread vote for termination "
	    "(%s%s%s), over %llu scheduler steps - all votes are in, yet the run goes on",
	    lv_rounds, g, g >= SIMTIME_MAX ? "GVT = infinity: nothing is pending anywhere" : "",
	    g < SIMTIME_MAX && gm_spec.endless ? "above the time at which every LP's predicate holds in the sequential execution and above every timestamp executed before" : "",
	    g < SIMTIME_MAX && RT.cfg.termination_time > 0 && g >= RT.cfg.termination_time ? " / at or above the termination time" : "",
	    (unsigned long long)(rsv_steps() - lv_step0));
	if(RT.res->verdict == RSV_FAIL)
		rt_abort_case();
}

static void ev_cb(const struct rsv_rec *r)
{
	switch(r->kind) {
		case RSV_EV_GVT:
			if(r->t > cb_max_gvt)
				cb_max_gvt = r->t; /* DET: one thread at a time; FREE: benign race between equal values of a round */
			if(lv_on && r->rid == 0 && r->rank == 0)
				liveness_on_gvt(r->t);
			break;
		case RSV_EV_PROCESS: {
			uint64_t id = r->a;
			if(lv_on && !r->b && r->m_t > lv_max_proc_t)
				lv_max_proc_t = r->m_t;
			if(id >= GM_MAXLP)
				return;
			struct dstack *s = &DS[id];
			if(s->n == s->cap) {
				s->cap = s->cap ? s->cap * 2 : 64;
				s->d = realloc(s->d, s->cap * sizeof *s->d);
				s->frozen = realloc(s->frozen, s->cap);
			}
			const struct lp_ctx *lp = &LPS(r->rank)[id];
			s->d[s->n] = lp_digest(lp);
			s->frozen[s->n] = gm_CanEnd(id, lp->state_pointer);
			s->n++;
			break;
		}
		case RSV_EV_CKPT: {
			uint64_t id = (const struct lp_ctx *)r->p - LPS(r->rank);
			if(id < GM_MAXLP && DS[id].nck < 512)
				DS[id].ck[DS[id].nck++] = (unsigned)r->a;
			break;
		}
		case RSV_EV_ROLLBACK: {
			if(r->thr >= 0 && r->thr < RSV_MAXT)
				in_rollback[r->thr] = 1;
			uint64_t id = (const struct lp_ctx *)r->p - LPS(r->rank);
			if(id >= GM_MAXLP)
				return;
			struct dstack *s = &DS[id];
			int at = 0;
			while(s->nck && s->ck[s->nck - 1] > r->a)
				s->nck--; /* checkpoints of the undone future disappear */
			if(s->nck && s->ck[s->nck - 1] == r->a)
				at = 1;
			if(at)
				n_rb_at++;
			else
				n_rb_between++;
			if(s->fossil_seen) {
				n_fossil_then_rb++;
				s->rolled_since_fossil = 1;
			}
			break;
		}
		case RSV_EV_SEND_LOCAL:
		case RSV_EV_SEND_REMOTE:
			if(r->thr >= 0 && r->thr < RSV_MAXT && in_rollback[r->thr]) {
				n_silent_send_leak++;
				rt_fail("C05", "an event was emitted (to LP %llu at t=%a) while events were being re-executed silently after a rollback",
				    (unsigned long long)r->m_dest, r->m_t);
			}
			break;
		case RSV_EV_ROLLBACK_DONE: {
			if(r->thr >= 0 && r->thr < RSV_MAXT)
				in_rollback[r->thr] = 0;
			const struct lp_ctx *lp = r->p;
			uint64_t id = lp - LPS(r->rank);
			if(id >= GM_MAXLP)
				return;
			struct dstack *s = &DS[id];
			unsigned k = count_past(lp, (unsigned)r->a);
			if(k > s->n) {
				rt_fail("C05", "harness: digest stack of LP %llu shorter (%zu) than its history (%u)", (unsigned long long)id, s->n, k);
				return;
			}
			int was_true = 0;
			for(size_t i = k; i < s->n; i++)
				was_true |= s->frozen[i];
			s->n = k;
			uint64_t expect;
			if(k)
				expect = s->d[k - 1];
			else if(s->have_base)
				expect = s->base_digest;
			else
				return;
			n_rb_digest++;
			uint64_t got = lp_digest(lp);
			if(got != expect)
				rt_fail(s->fossil_seen ? lab("C05", "C13") : "C05",
				    "state of LP %llu after rollback (kept %llu history entries = %u events, restored checkpoint at %llu) differs from "
				    "the state right after its last valid event (digest %016llx, expected %016llx)",
				    (unsigned long long)id, (unsigned long long)r->a, k, (unsigned long long)r->b, (unsigned long long)got,
				    (unsigned long long)expect);
			if(was_true && !gm_CanEnd(id, lp->state_pointer))
				n_spec_true_rb++;
			break;
		}
		case RSV_EV_FOSSIL_BEGIN: {
			const struct lp_ctx *lp = r->p;
			uint64_t id = lp - LPS(r->rank);
			if(id >= GM_MAXLP)
				return;
			struct dstack *s = &DS[id];
			unsigned j = count_past(lp, (unsigned)r->a);
			if(j > s->n)
				j = (unsigned)s->n;
			if(j) {
				s->base_digest = s->d[j - 1];
				s->have_base = 1;
				memmove(s->d, s->d + j, (s->n - j) * sizeof *s->d);
				memmove(s->frozen, s->frozen + j, s->n - j);
				s->n -= j;
			}
			/* re-base checkpoint positions */
			unsigned w = 0;
			for(unsigned i = 0; i < s->nck; i++)
				if(s->ck[i] >= r->a)
					s->ck[w++] = s->ck[i] - (unsigned)r->a;
			s->nck = w;
			if(s->fossil_seen && s->rolled_since_fossil)
				s->fossils_with_rb_between++;
			s->fossil_seen = 1;
			s->rolled_since_fossil = 0;
			break;
		}
		default:
			break;
	}
}

void rt_oracles_begin(void)
{
	memset(DS, 0, sizeof DS);
	cb_max_gvt = 0;
	lv_on = RT.cfg.mode == RSV_MODE_DET && !RT.cfg.serial;
	lv_tau_all = -1;
	for(unsigned i = 0; i < gm_spec.n_lps; i++)
		if(RT.ref.tau[i] > lv_tau_all)
			lv_tau_all = RT.ref.tau[i];
	lv_max_proc_t = 0;
	lv_t_hi = -1;
	lv_rounds = 0;
	lv_step0 = 0;
	if(!RT.cfg.serial) {
		rsv_trace_enable(TRACE_CAP);
		rsv_ev_callback = ev_cb;
	} else {
		rsv_trace_enable(0);
		rsv_ev_callback = NULL;
	}
}

void rt_hang_classify(const char *why, const char *sig)
{
	struct rsv_result *res = RT.res;
	/* signature of the listed cross-rank shutdown deadlock: a rank already waits in the node barrier of gvt_msg_drain()
	 * (stage 2) while another rank still serves a GVT reduction in the first loop of gvt_msg_drain() (stage 1) */
	int n = rsv_nthreads_created(), in_barrier_rank = -1, in_round_rank = -1;
	for(int i = 1; i < n; i++) {
		if(rsv_thread_done(i) || rsv_thread_rid(i) < 0)
			continue;
		if(rsv_last_stage(i) == 2)
			in_barrier_rank = rsv_thread_rank(i);
		if(rsv_last_stage(i) == 1)
			in_round_rank = rsv_thread_rank(i);
	}
	const char *key = NULL;
	if(RT.cfg.ranks > 1 && in_barrier_rank >= 0 && in_round_rank >= 0 && in_barrier_rank != in_round_rank)
		key = "C08:drain:rank-in-node-barrier-while-reduction-pending";
	if(key && rt_known(key)) {
		res->verdict = RSV_KNOWN;
		snprintf(res->known, sizeof res->known, "%s", key);
		snprintf(res->msg, sizeof res->msg, "listed finding: %s (%s)", key, sig);
		return;
	}
	if(strcmp(RT.prop, "C08")) {
		/* belongs to C08; for the property being checked this run produced no result */
		res->verdict = RSV_DISCARD;
		res->cls[K_OTHER_PROP_FAIL]++;
		snprintf(res->msg, sizeof res->msg, "run did not return (%s): %s", why, sig);
		return;
	}
	rsv_fail(res, "C08", "RootsimRun did not return: %s after %llu scheduler steps%s%s; threads: %s", why, (unsigned long long)rsv_steps(),
	    key ? " [signature " : "", key ? key : "", sig);
}

/* ---- message ledger (C06) --------------------------------------------------------------------------------------- */
struct ment {
	const void *p;
	int8_t queued;
	uint8_t allocated, freed, in_hist, cancelled, sent, accounted, committed, xflags, remote;
	uint16_t nproc;
	uint64_t dest;
	double t;
};
static struct ment *MT;
static size_t MT_cap;

static struct ment *mt_get(const void *p, int create)
{
	size_t h = ((uintptr_t)p >> 4) * 0x9e3779b97f4a7c15ULL >> 40;
	for(size_t i = 0; i < MT_cap; i++) {
		struct ment *e = &MT[(h + i) & (MT_cap - 1)];
		if(e->p == p)
			return e;
		if(!e->p) {
			if(!create)
				return NULL;
			e->p = p;
			return e;
		}
	}
	return NULL;
}

/* remote messages are identified across ranks by (destination rank, sender id bits, sequence number) */
static uint64_t *EP; /* keys of early anti-messages stored and not yet matched */
static size_t EP_cap;
static uint64_t rkey(const struct rsv_rec *r)
{
	return ((uint64_t)(r->rank & 0xf) << 60) ^ ((uint64_t)(r->m_flags & ~3u) << 28) ^ r->m_seq ^ 0x8000000000000000ULL;
}
static int ep_find(uint64_t k, int insert, int erase)
{
	size_t h = (size_t)((k * 0x9e3779b97f4a7c15ULL) >> 40);
	for(size_t i = 0; i < EP_cap; i++) {
		uint64_t *s = &EP[(h + i) & (EP_cap - 1)];
		if(*s == k) {
			if(erase)
				*s = 1; /* tombstone */
			return 1;
		}
		if(*s == 0) {
			if(insert)
				*s = k;
			return 0;
		}
	}
	return 0;
}

static int same_ev(const struct ref_ev *e, const struct rsv_rec *r)
{
	return !memcmp(&e->t, &r->m_t, sizeof(double)) && e->type == r->m_type && e->size == r->m_size && e->plhash == r->m_plhash;
}

static double last_max_gvt;
static void walk_trace(void)
{
	last_max_gvt = 0;
	struct rsv_result *res = RT.res;
	const struct gm_spec *g = &gm_spec;
	size_t n = rsv_trace_n();
	int det = RT.cfg.mode == RSV_MODE_DET;
	if(rsv_trace_overflow()) {
		res->cls[K_BUDGET]++;
		if(!strcmp(RT.prop, "C03") || !strcmp(RT.prop, "C04") || !strcmp(RT.prop, "C06") || !strcmp(RT.prop, "C20") || !strcmp(RT.prop, "C13")) {
			res->verdict = RSV_INCONCLUSIVE;
			snprintf(res->msg, sizeof res->msg, "trace buffer overflow (%d records): history oracles not evaluated", TRACE_CAP);
		}
		return;
	}
	double gvt_last[RSV_MAXT];
	double *gvts[RSV_MAXT];
	size_t ngv[RSV_MAXT];
	memset(ngv, 0, sizeof ngv);
	for(int i = 0; i < RSV_MAXT; i++) {
		gvt_last[i] = 0;
		gvts[i] = NULL;
	}
	size_t committed[GM_MAXLP];
	int fini_stop[GM_MAXLP];
	memset(committed, 0, sizeof committed);
	memset(fini_stop, 0, sizeof fini_stop);
	MT_cap = 1;
	while(MT_cap < n / 2 + 1024)
		MT_cap <<= 1;
	MT = calloc(MT_cap, sizeof *MT);
	EP_cap = 1 << 16;
	EP = calloc(EP_cap, sizeof *EP);
	int c06 = det; /* the ledger needs the total order */
	double max_gvt = 0;
	double recent_anti[32];
	unsigned n_recent_anti = 0;
	memset(recent_anti, 0, sizeof recent_anti);

	for(size_t i = 0; i < n && res->verdict != RSV_FAIL; i++) {
		const struct rsv_rec *r = &rsv_trace[i];
		int th = r->thr >= 0 && r->thr < RSV_MAXT ? r->thr : 0;
		struct ment *e = NULL;
		switch(r->kind) {
			case RSV_EV_GVT:
				res->cls[K_GVT_ROUNDS]++;
				/* generator quality: was this value bound by cancellation debris (an anti-message extracted lately)? */
				for(unsigned q = 0; q < 32; q++)
					if(recent_anti[q] == r->t && r->t > 0) {
						res->cls[K_GVT_BOUND_BY_ANTI]++;
						break;
					}
				if(r->t < gvt_last[th])
					rt_fail("C04", "GVT reported to thread %d decreased from %a to %a", r->rid, gvt_last[th], r->t);
				gvt_last[th] = r->t;
				if(r->t > max_gvt)
					max_gvt = r->t;
				if((ngv[th] & (ngv[th] + 1)) == 0 || !gvts[th])
					gvts[th] = realloc(gvts[th], 2 * (ngv[th] + 1) * sizeof(double));
				gvts[th][ngv[th]++] = r->t;
				break;
			case RSV_EV_EXTRACT:
				if(r->a & 1)
					recent_anti[n_recent_anti++ & 31] = r->m_t;
				if(r->m_t < gvt_last[th])
					rt_fail("C04", "thread %d extracted %s with timestamp %a for LP %llu after it had been told GVT = %a", r->rid,
					    r->a & 1 ? "an anti-message" : "an event", r->m_t, (unsigned long long)r->m_dest, gvt_last[th]);
				if(c06) {
					e = mt_get(r->p, 1);
					e->xflags = (uint8_t)(r->a & 3);
					if(--e->queued < 0)
						rt_fail("C06", "message %p (LP %llu, t=%a) extracted although it is not queued (delivered twice)", r->p,
						    (unsigned long long)r->m_dest, r->m_t);
				}
				break;
			case RSV_EV_PROCESS:
				if(c06 && !r->b) {
					e = mt_get(r->p, 1);
					if(e->in_hist)
						rt_fail("C06", "message %p processed again while still in the history of LP %llu", r->p, (unsigned long long)r->a);
					if(e->xflags & 1)
						rt_fail("C06", "message %p (t=%a) was extracted with its cancellation flag set and still executed by LP %llu", r->p,
						    r->m_t, (unsigned long long)r->a);
					if(e->remote && ep_find(rkey(r), 0, 0))
						rt_fail("C06",
						    "remote event (LP %llu, t=%a, seq %u) was executed although its anti-message had arrived before it and was stored: "
						    "the cancelled event was not annihilated",
						    (unsigned long long)r->a, r->m_t, r->m_seq);
					e->in_hist = 1;
					e->nproc++;
				}
				break;
			case RSV_EV_UNPROCESS:
				res->cls[K_UNDONE]++;
				if(r->m_t < gvt_last[th])
					rt_fail("C04", "thread %d undid an event with timestamp %a (LP %llu) below the GVT %a it had been told", r->rid, r->m_t,
					    (unsigned long long)r->m_dest, gvt_last[th]);
				if(c06) {
					e = mt_get(r->p, 1);
					e->in_hist = 0;
					if(!(r->a & 1))
						e->queued++;
				}
				break;
			case RSV_EV_ROLLBACK:
				res->cls[K_ROLLBACKS]++;
				break;
			case RSV_EV_SILENT:
				res->cls[K_SILENT]++;
				break;
			case RSV_EV_CKPT:
				res->cls[K_CKPTS]++;
				break;
			case RSV_EV_SEND_LOCAL:
				if(c06) {
					e = mt_get(r->p, 1);
					e->sent = 1;
					e->queued++;
					e->dest = r->m_dest;
					e->t = r->m_t;
				}
				break;
			case RSV_EV_ANTI_LOCAL:
				res->cls[K_ANTI_LOCAL]++;
				if(c06) {
					e = mt_get(r->p, 1);
					if(e->cancelled)
						rt_fail("C06", "message %p (LP %llu, t=%a) cancelled twice", r->p, (unsigned long long)e->dest, e->t);
					if(e->committed)
						rt_fail("C06", "message %p (t=%a) cancelled after it was committed", r->p, e->t);
					e->cancelled = 1;
					if(r->a & 2) {
						e->queued++;
						res->cls[K_ANTI_AFTER_PROCESS]++;
					} else if(e->nproc)
						res->cls[K_ANTI_REQUEUED]++;
					else
						res->cls[K_ANTI_BEFORE_EXTRACT]++;
				}
				break;
			case RSV_EV_REMOTE_RECV:
				if(r->a)
					res->cls[K_REMOTE_ANTI]++;
				if(c06) {
					e = mt_get(r->p, 1);
					e->queued++;
					e->dest = r->m_dest;
					e->t = r->m_t;
					e->remote = 1;
				}
				break;
			case RSV_EV_SEND_REMOTE:
				res->cls[K_REMOTE_SENT]++;
				break;
			case RSV_EV_EARLY_ANTI:
				res->cls[K_EARLY_ANTI]++;
				if(c06)
					ep_find(rkey(r), 1, 0);
				break;
			case RSV_EV_EARLY_MATCH:
				res->cls[K_EARLY_MATCH]++;
				if(c06) {
					if(!ep_find(rkey(r), 0, 1))
						rt_fail("C06", "remote event (LP %llu, t=%a) annihilated as 'early cancelled' although no anti-message for it had arrived",
						    (unsigned long long)r->m_dest, r->m_t);
					e = mt_get(r->p, 1);
					e->accounted = 1;
				}
				break;
			case RSV_EV_REMOTE_ANTI:
				res->cls[K_REMOTE_ANTI_MATCHED]++;
				break;
			case RSV_EV_ANTI_DROP:
				if(c06) {
					e = mt_get(r->p, 1);
					e->accounted = 1;
					if(!e->cancelled && !e->remote)
						rt_fail("C06", "message %p (LP %llu, t=%a) annihilated although its sender never cancelled it", r->p,
						    (unsigned long long)r->m_dest, r->m_t);
				}
				break;
			case RSV_EV_FOSSIL_BEGIN:
				res->cls[K_FOSSILS]++;
				break;
			case RSV_EV_FOSSIL_ENTRY:
				if(r->tag == 0) {
					uint64_t lp = r->a;
					if(!(r->m_t < r->t))
						rt_fail(lab(lab("C03", "C13"), "C04"), "LP %llu: history entry with timestamp %a released by fossil collection at GVT %a (not below it)",
						    (unsigned long long)lp, r->m_t, r->t);
					if(r->t != gvt_last[th])
						rt_fail("C04", "thread %d reclaims history at GVT %a but the last GVT it was told is %a", r->rid, r->t, gvt_last[th]);
					if(lp < GM_MAXLP) {
						size_t k = committed[lp]++;
						res->cls[K_COMMITTED]++;
						if(k >= RT.ref.seq_n[lp])
							rt_fail("C03", "LP %llu committed %zu events but the sequential execution delivers only %zu", (unsigned long long)lp,
							    k + 1, RT.ref.seq_n[lp]);
						else if(!same_ev(&RT.ref.seq[lp][k], r))
							rt_fail("C03",
							    "LP %llu: committed event #%zu is (t=%a type=%u size=%u) but the sequential execution delivers (t=%a type=%u size=%u) there",
							    (unsigned long long)lp, k, r->m_t, r->m_type, r->m_size, RT.ref.seq[lp][k].t, RT.ref.seq[lp][k].type,
							    RT.ref.seq[lp][k].size);
					}
					if(c06) {
						e = mt_get(r->p, 1);
						e->in_hist = 0;
						e->committed = 1;
						e->accounted = 1;
						if(e->cancelled)
							rt_fail("C06", "cancelled message %p (LP %llu, t=%a) was committed", r->p, (unsigned long long)lp, r->m_t);
					}
				}
				break;
			case RSV_EV_FINI_ENTRY:
				if(r->tag == 0) {
					uint64_t lp = r->a;
					if(c06) {
						e = mt_get(r->p, 1);
						e->in_hist = 0;
						e->accounted = 1;
					}
					if(lp < GM_MAXLP && !fini_stop[lp]) {
						if(r->m_t < gvt_last[th]) {
							size_t k = committed[lp]++;
							res->cls[K_COMMITTED]++;
							if(k >= RT.ref.seq_n[lp])
								rt_fail("C03", "LP %llu holds %zu committed events at shutdown but the sequential execution delivers only %zu",
								    (unsigned long long)lp, k + 1, RT.ref.seq_n[lp]);
							else if(!same_ev(&RT.ref.seq[lp][k], r))
								rt_fail("C03",
								    "LP %llu: event #%zu held at shutdown below the last GVT %a is (t=%a type=%u size=%u) but the sequential "
								    "execution delivers (t=%a type=%u size=%u) there",
								    (unsigned long long)lp, k, gvt_last[th], r->m_t, r->m_type, r->m_size, RT.ref.seq[lp][k].t,
								    RT.ref.seq[lp][k].type, RT.ref.seq[lp][k].size);
						} else
							fini_stop[lp] = 1;
					}
				}
				break;
			case RSV_EV_QUEUE_LEFT:
				res->cls[K_LEFTOVER]++;
				if(r->m_t < gvt_last[th])
					rt_fail("C04", "a message with timestamp %a (LP %llu) was still queued at shutdown, below the last GVT %a of thread %d",
					    r->m_t, (unsigned long long)r->m_dest, gvt_last[th], r->rid);
				if(c06) {
					e = mt_get(r->p, 1);
					e->queued--;
					e->accounted = 1;
				}
				break;
			case RSV_EV_MSG_ALLOC:
				if(c06) {
					e = mt_get(r->p, 1);
					if(e->allocated && !e->freed && (e->queued > 0 || e->in_hist))
						rt_fail("C06", "message buffer %p handed out again while still reachable (queued=%d, in history=%d)", r->p, e->queued,
						    e->in_hist);
					const void *p = e->p;
					memset(e, 0, sizeof *e);
					e->p = p;
					e->allocated = 1;
				}
				break;
			case RSV_EV_MSG_FREE:
				if(c06) {
					e = mt_get(r->p, 1);
					if(e->freed)
						rt_fail("C06", "message buffer %p (LP %llu, t=%a) released twice", r->p, (unsigned long long)e->dest, e->t);
					else if(e->queued > 0)
						rt_fail("C06", "message buffer %p (LP %llu, t=%a) released while still queued", r->p, (unsigned long long)e->dest, e->t);
					else if(e->in_hist)
						rt_fail("C06", "message buffer %p (LP %llu, t=%a) released while still in the history of its receiver", r->p,
						    (unsigned long long)e->dest, e->t);
					e->freed = 1;
				}
				break;
			default:
				break;
		}
	}
	/* same GVT sequence on all threads (common prefix) */
	int first = -1;
	for(int th = 0; th < RSV_MAXT; th++) {
		if(!ngv[th])
			continue;
		if(first < 0) {
			first = th;
			continue;
		}
		size_t m = ngv[th] < ngv[first] ? ngv[th] : ngv[first];
		for(size_t k = 0; k < m; k++)
			if(gvts[th][k] != gvts[first][k]) {
				rt_fail("C04", "GVT round %zu: one thread was told %a, another %a", k, gvts[first][k], gvts[th][k]);
				break;
			}
	}
	/* ledger: final accounting */
	if(c06 && res->verdict != RSV_FAIL)
		for(size_t i = 0; i < MT_cap; i++) {
			struct ment *e = &MT[i];
			if(!e->p || !e->sent)
				continue;
			if(e->cancelled && !e->freed) {
				rt_fail("C06", "cancelled message %p (LP %llu, t=%a) was never removed from the system", e->p, (unsigned long long)e->dest, e->t);
				break;
			}
			if(!e->cancelled && !e->accounted) {
				rt_fail("C06", "message %p (LP %llu, t=%a) sent by a valid execution vanished: neither committed, held, nor queued at shutdown",
				    e->p, (unsigned long long)e->dest, e->t);
				break;
			}
		}
	/* C07 (trace form): a run that was not stopped returns only when every predicate held below the final GVT */
	if(g->stop_lp < 0 && res->verdict != RSV_FAIL) {
		/* an unset termination time is SIMTIME_MAX: a GVT of SIMTIME_MAX (nothing left anywhere) reaches it */
		int tt_reached = max_gvt >= (RT.cfg.termination_time != 0 ? RT.cfg.termination_time : SIMTIME_MAX);
		res->cls[K_EARLY_END] = tt_reached;
		if(!tt_reached)
			for(unsigned lp = 0; lp < g->n_lps; lp++)
				if(!(RT.ref.tau[lp] < max_gvt)) {
					rt_fail("C07",
					    "the run returned with final GVT %a although the predicate of LP %u first holds at timestamp %a in the sequential "
					    "execution (termination time %a)",
					    max_gvt, lp, RT.ref.tau[lp], RT.cfg.termination_time);
					break;
				}
	}
	last_max_gvt = max_gvt;
	for(int th = 0; th < RSV_MAXT; th++)
		free(gvts[th]);
	free(MT);
	MT = NULL;
	free(EP);
	EP = NULL;
}

/* ---- serial runtime: dispatch log against the reference (C10) ------------------------------------------------------- */
static void check_serial(void)
{
	struct rsv_result *res = RT.res;
	const struct gm_spec *g = &gm_spec;
	const struct ref_result *ref = &RT.ref;
	const struct gm_dispatch *L = gm_out.log;
	size_t n = gm_out.log_n, nl = g->n_lps;
	if(n < 2 * nl) {
		rt_fail("C10", "serial runtime dispatched %zu events for %zu LPs (LP_INIT and LP_FINI for each are required)", n, nl);
		return;
	}
	for(size_t i = 0; i < nl; i++) {
		if(L[i].type != LP_INIT || L[i].lp != i)
			rt_fail("C10", "dispatch #%zu is (lp %u, type %u), expected LP_INIT of LP %zu", i, L[i].lp, L[i].type, i);
		if(L[n - nl + i].type != LP_FINI || L[n - nl + i].lp != i)
			rt_fail("C10", "dispatch #%zu is (lp %u, type %u), expected LP_FINI of LP %zu", n - nl + i, L[n - nl + i].lp, L[n - nl + i].type, i);
	}
	size_t M = n - 2 * nl, idx[GM_MAXLP];
	for(size_t i = 0; i < nl; i++)
		idx[i] = 1; /* skip LP_INIT in the reference sequences */
	double prev_t = 0;
	for(size_t k = 0; k < M && res->verdict != RSV_FAIL; k++) {
		const struct gm_dispatch *d = &L[nl + k];
		if(d->type >= LP_INIT || d->lp >= nl) {
			rt_fail("C10", "dispatch #%zu is a reserved event (lp %u type %u) in the middle of the run", nl + k, d->lp, d->type);
			break;
		}
		if(d->t < prev_t)
			rt_fail("C10", "serial dispatch order goes back in time: %a after %a", d->t, prev_t);
		prev_t = d->t;
		size_t j = idx[d->lp]++;
		if(j >= ref->seq_n[d->lp]) {
			rt_fail("C10", "LP %u received %zu events, the reference executor delivers only %zu", d->lp, j, ref->seq_n[d->lp] - 1);
			break;
		}
		const struct ref_ev *e = &ref->seq[d->lp][j];
		/* gm_model's log hash and the reference's payload hash are different functions: compare t/type/size here,
		 * payload through the digest below */
		if(memcmp(&e->t, &d->t, sizeof(double)) || e->type != d->type || e->size != d->size)
			rt_fail("C10", "LP %u: delivery #%zu is (t=%a type=%u size=%u), the reference executor delivers (t=%a type=%u size=%u)", d->lp, j,
			    d->t, d->type, d->size, e->t, e->type, e->size);
	}
	if(res->verdict == RSV_FAIL)
		return;
	/* stop point: judged on per-LP delivery counts, so that events the order cannot distinguish (same content, other
	 * destination) may be interleaved differently than in the reference run */
	size_t E = ref->global_n;
	size_t c[GM_MAXLP];
	for(size_t i = 0; i < nl; i++)
		c[i] = idx[i] - 1; /* own (non-INIT) events delivered */
	const struct gm_dispatch *last = M ? &L[nl + M - 1] : NULL;
	double tt = RT.cfg.termination_time == 0 ? INFINITY : RT.cfg.termination_time;
	int ok = 0;
	char why[200] = "";
	/* (a) the event list ran empty */
	if(M == E)
		ok = 1;
	/* (b) all predicates hold: weakest reading = every LP has received the event that made its predicate true;
	 *     the run must stop at the event that completes the last LP (strongest reading: after an own event) */
	if(!ok) {
		int weak = 1, strong = 1;
		size_t tau_cnt[GM_MAXLP];
		for(size_t i = 0; i < nl; i++) {
			if(ref->tau[i] == INFINITY) {
				weak = strong = 0;
				tau_cnt[i] = SIZE_MAX;
				continue;
			}
			/* number of own events after which the predicate first held */
			size_t k = 0;
			if(ref->tau[i] != -1.0)
				for(k = 1; k < ref->seq_n[i]; k++)
					if(ref->seq[i][k].digest_after == ref->digest_at_tau[i])
						break;
			tau_cnt[i] = k;
			weak &= c[i] >= k;
			strong &= c[i] >= (k ? k : 1);
		}
		if(weak && last) {
			size_t need_weak = tau_cnt[last->lp], need_strong = need_weak ? need_weak : 1;
			if(c[last->lp] == need_weak || (strong && c[last->lp] == need_strong))
				ok = 1;
			else
				snprintf(why, sizeof why, "all predicates held earlier: the last dispatched event (LP %u, its #%zu) completes nothing", last->lp,
				    c[last->lp]);
		} else if(weak && !last)
			ok = 1;
	}
	/* (c) termination time: the last dispatched event is at or beyond it (the first such one when the check runs at every event) */
	if(!ok && last && last->t >= tt) {
		ok = 1;
		if(RT.cfg.gvt_period == 0 && M >= 2 && L[nl + M - 2].t >= tt) {
			ok = 0;
			snprintf(why, sizeof why, "with GVT period 0 the run must stop at the first event with timestamp >= termination time %a", tt);
		}
	}
	/* (d) RootsimStop: the requesting event has been dispatched (it is the last one when the check runs at every event) */
	if(!ok && g->stop_lp >= 0 && ref->stop_time != INFINITY) {
		size_t need = g->stop_at;
		if(c[g->stop_lp] >= need && (M > 0 || E == 0)) {
			ok = 1;
			if(RT.cfg.gvt_period == 0 && need > 0 && !(last && last->lp == (uint32_t)g->stop_lp && c[g->stop_lp] == need)) {
				ok = 0;
				snprintf(why, sizeof why, "with GVT period 0 the run must stop at the event whose handler called RootsimStop");
			}
			if(RT.cfg.gvt_period == 0 && need == 0 && M > 1) {
				ok = 0;
				snprintf(why, sizeof why, "RootsimStop during LP_INIT with GVT period 0 must stop the run at the first event");
			}
		}
	}
	if(!ok)
		rt_fail("C10", "serial runtime stopped after %zu of %zu events at a point where neither all predicates hold, nor the termination time %a "
		               "is reached, nor a stop was requested, nor the event list is empty%s%s",
		    M, E, tt, why[0] ? ": " : "", why);
	res->cls[K_COMMITTED] = M;
}


/* ---- statistics file (C20) ------------------------------------------------------------------------------------------- */
struct sreader {
	unsigned char *d;
	size_t n, i;
	int bad;
};
static uint64_t rd(struct sreader *r, unsigned nb)
{
	uint64_t v = 0;
	if(r->i + nb > r->n) {
		r->bad = 1;
		r->i = r->n;
		return 0;
	}
	memcpy(&v, r->d + r->i, nb);
	r->i += nb;
	return v;
}

enum { S_PROCESSED = 0, S_ROLLBACK = 2, S_MSG_ROLLBACK = 4, S_CKPT = 5, S_SILENT = 8, S_ANTI = 10 };

static void check_stats(const char *stats_path)
{
	struct rsv_result *res = RT.res;
	const struct gm_spec *g = &gm_spec;
	char path[320];
	snprintf(path, sizeof path, "%s.bin", stats_path);
	FILE *f = fopen(path, "rb");
	if(!f) {
		rt_fail("C20", "a statistics file was requested but %s was not produced", path);
		return;
	}
	struct sreader R = {0};
	fseek(f, 0, SEEK_END);
	R.n = (size_t)ftell(f);
	fseek(f, 0, SEEK_SET);
	R.d = malloc(R.n + 1);
	if(fread(R.d, 1, R.n, f) != R.n)
		R.bad = 1;
	fclose(f);
	/* independent reader, written from the layout tables in the documentation of log/stats.c */
	uint64_t magic = rd(&R, 2);
	if(magic != 61455) {
		rt_fail("C20", "statistics file: magic number %llu instead of 61455", (unsigned long long)magic);
		goto out;
	}
	int64_t s_cnt = (int64_t)rd(&R, 8);
	if(s_cnt < 11 || s_cnt > 64) {
		rt_fail("C20", "statistics file: implausible metric count %lld", (long long)s_cnt);
		goto out;
	}
	int idx_of[16];
	for(int i = 0; i < 16; i++)
		idx_of[i] = -1;
	for(int64_t i = 0; i < s_cnt && !R.bad; i++) {
		unsigned l = (unsigned)rd(&R, 1);
		char name[260] = "";
		if(R.i + l > R.n) {
			R.bad = 1;
			break;
		}
		memcpy(name, R.d + R.i, l);
		R.i += l;
		static const struct {
			const char *n;
			int k;
		} want[] = {{"processed messages", S_PROCESSED}, {"rollbacks", S_ROLLBACK}, {"rolled back messages", S_MSG_ROLLBACK},
		    {"checkpoints", S_CKPT}, {"silent messages", S_SILENT}, {"anti messages", S_ANTI}};
		for(unsigned w = 0; w < 6; w++)
			if(!strcmp(name, want[w].n))
				idx_of[want[w].k] = (int)i;
	}
	for(unsigned w = 0; w < 6; w++) {
		static const int ks[] = {S_PROCESSED, S_ROLLBACK, S_MSG_ROLLBACK, S_CKPT, S_SILENT, S_ANTI};
		if(idx_of[ks[w]] < 0 && !R.bad) {
			rt_fail("C20", "statistics file: a documented per-thread metric name is missing from the preamble (metric %d)", ks[w]);
			goto out;
		}
	}
	int64_t n_cnt = (int64_t)rd(&R, 8);
	unsigned ranks = RT.cfg.ranks ? RT.cfg.ranks : 1;
	if(n_cnt != (int64_t)ranks) {
		rt_fail("C20", "statistics file: %lld node records, the run used %u rank(s)", (long long)n_cnt, ranks);
		goto out;
	}
	/* what happened, per (rank, rid) and per flush period, from the hook trace */
	enum { MAXT = 16 };
	size_t tn = rsv_trace_n();
	int have_trace = !rsv_trace_overflow();
	size_t slots = (size_t)ranks * MAXT;
	uint64_t **cnts = calloc(slots, sizeof *cnts); /* cnts[rank*MAXT+rid][period*6 + k] */
	size_t *nper = calloc(slots, sizeof *nper);
	size_t *capper = calloc(slots, sizeof *capper);
	double **tgv = calloc(ranks, sizeof *tgv); /* GVT values thread 0 of each rank logged */
	size_t *ntgv = calloc(ranks, sizeof *ntgv);
	if(have_trace) {
		for(size_t i = 0; i < tn; i++) {
			const struct rsv_rec *r = &rsv_trace[i];
			if(r->rid < 0 || r->rid >= MAXT || r->rank < 0 || (unsigned)r->rank >= ranks)
				continue;
			int k = -1;
			switch(r->kind) {
				case RSV_EV_PROCESS:
					k = 0;
					break;
				case RSV_EV_ROLLBACK:
					k = 1;
					break;
				case RSV_EV_UNPROCESS:
					k = 2;
					break;
				case RSV_EV_CKPT:
					k = 3;
					break;
				case RSV_EV_SILENT:
					k = 4;
					break;
				case RSV_EV_ANTI_LOCAL:
				case RSV_EV_ANTI_REMOTE:
					k = 5;
					break;
				case RSV_EV_STATS_FLUSH:
					k = 6;
					break;
				default:
					break;
			}
			if(k == 6 && r->rid == 0) { /* the GVT value thread 0 logs in this round (main loop or drain) */
				tgv[r->rank] = realloc(tgv[r->rank], (ntgv[r->rank] + 1) * sizeof(double));
				tgv[r->rank][ntgv[r->rank]++] = r->t;
			}
			if(k < 0)
				continue;
			size_t t = (size_t)r->rank * MAXT + (size_t)r->rid;
			if(nper[t] + 2 > capper[t]) {
				size_t nc = capper[t] ? capper[t] * 2 : 16;
				cnts[t] = realloc(cnts[t], nc * 6 * sizeof(uint64_t));
				memset(cnts[t] + capper[t] * 6, 0, (nc - capper[t]) * 6 * sizeof(uint64_t));
				capper[t] = nc;
			}
			if(k == 6)
				nper[t]++;
			else
				cnts[t][nper[t] * 6 + k]++;
		}
	}
	static const int col[6] = {S_PROCESSED, S_ROLLBACK, S_MSG_ROLLBACK, S_CKPT, S_SILENT, S_ANTI};
	static const char *cname[6] = {"forward executions", "rollbacks", "undone events", "checkpoints", "silent re-executions", "anti-messages"};
	int stopped = g->stop_lp >= 0;
	uint64_t lps_sum = 0;
	size_t rec_total = 0;
	double *gv = NULL;
	for(unsigned nd = 0; nd < ranks && !R.bad && res->verdict != RSV_FAIL; nd++) {
		uint64_t glob[9];
		for(int i = 0; i < 9; i++)
			glob[i] = rd(&R, 8);
		uint64_t t_cnt = glob[0];
		lps_sum += glob[1];
		/* a node runs min(configured threads, LPs it hosts) threads; the file states both */
		uint64_t eff_thr = RT.cfg.n_threads < glob[1] ? RT.cfg.n_threads : glob[1];
		if(t_cnt != eff_thr || t_cnt > MAXT) {
			rt_fail("C20", "statistics file: node %u: thread count %llu, but it hosts %llu LPs with %u configured threads", nd,
			    (unsigned long long)t_cnt, (unsigned long long)glob[1], RT.cfg.n_threads);
			break;
		}
		int64_t n_siz = (int64_t)rd(&R, 8);
		if(n_siz < 0 || n_siz % 16) {
			rt_fail("C20", "statistics file: node %u: GVT array size %lld is not a multiple of 16", nd, (long long)n_siz);
			break;
		}
		size_t n_rec = (size_t)(n_siz / 16);
		if(n_rec > R.n) {
			R.bad = 1;
			break;
		}
		gv = realloc(gv, (n_rec + 1) * sizeof(double));
		for(size_t i = 0; i < n_rec; i++) {
			uint64_t b = rd(&R, 8);
			memcpy(&gv[i], &b, 8);
			(void)rd(&R, 8);
			if(i && gv[i] < gv[i - 1])
				rt_fail("C20", "statistics file: node %u: GVT column decreases from %a to %a at record %zu", nd, gv[i - 1], gv[i], i);
		}
		rec_total = n_rec > rec_total ? n_rec : rec_total;
		for(uint64_t t = 0; t < t_cnt && !R.bad && res->verdict != RSV_FAIL; t++) {
			size_t ti = (size_t)nd * MAXT + t;
			int64_t t_siz = (int64_t)rd(&R, 8);
			if(t_siz < 0 || t_siz % (s_cnt * 8)) {
				rt_fail("C20", "statistics file: node %u thread %llu array size %lld is not a multiple of %lld", nd, (unsigned long long)t,
				    (long long)t_siz, (long long)(s_cnt * 8));
				break;
			}
			size_t recs = (size_t)(t_siz / (s_cnt * 8));
			if(recs != n_rec) {
				size_t dlt = recs > n_rec ? recs - n_rec : n_rec - recs;
				if(!stopped || dlt > 1)
					rt_fail("C20", "statistics file: node %u thread %llu has %zu per-GVT records, the node has %zu%s", nd, (unsigned long long)t,
					    recs, n_rec, stopped ? " (run stopped by RootsimStop: a difference of one round is tolerated)" : "");
			}
			uint64_t cum_fwd = 0, cum_undone = 0;
			for(size_t k = 0; k < recs && !R.bad; k++) {
				uint64_t v[64];
				for(int64_t j = 0; j < s_cnt; j++)
					v[j] = rd(&R, 8);
				cum_fwd += v[idx_of[S_PROCESSED]];
				cum_undone += v[idx_of[S_MSG_ROLLBACK]];
				if(cum_undone > cum_fwd)
					rt_fail("C20", "statistics file: node %u thread %llu: cumulative undone events (%llu) exceed forward executions (%llu) at record %zu",
					    nd, (unsigned long long)t, (unsigned long long)cum_undone, (unsigned long long)cum_fwd, k);
				if(have_trace && k < nper[ti])
					for(int c = 0; c < 6; c++)
						if(v[idx_of[col[c]]] != cnts[ti][k * 6 + c]) {
							rt_fail("C20", "statistics file: node %u thread %llu record %zu reports %llu %s, but %llu occurred on that thread since its previous record",
							    nd, (unsigned long long)t, k, (unsigned long long)v[idx_of[col[c]]], cname[c], (unsigned long long)cnts[ti][k * 6 + c]);
							break;
						}
			}
			if(have_trace && nper[ti] != recs)
				rt_fail("C20", "statistics file: node %u thread %llu wrote %zu records but flushed %zu times", nd, (unsigned long long)t, recs, nper[ti]);
		}
		/* the GVT column is what thread 0 of that node was told */
		if(have_trace && !R.bad && res->verdict != RSV_FAIL) {
			if(ntgv[nd] != n_rec)
				rt_fail("C20", "statistics file: node %u: %zu node records but its thread 0 logged %zu GVT rounds", nd, n_rec, ntgv[nd]);
			else
				for(size_t i = 0; i < n_rec; i++)
					if(gv[i] != tgv[nd][i]) {
						rt_fail("C20", "statistics file: node %u: GVT column record %zu is %a, the GVT of that round was %a", nd, i, gv[i], tgv[nd][i]);
						break;
					}
		}
	}
	res->cls[K_STATS_RECORDS] = rec_total;
	if(R.bad)
		rt_fail("C20", "statistics file is truncated: its size fields lead beyond the end of the file (%zu bytes)", R.n);
	else if(res->verdict != RSV_FAIL && R.i != R.n)
		rt_fail("C20", "statistics file has %zu trailing bytes after the documented layout", R.n - R.i);
	else if(res->verdict != RSV_FAIL && lps_sum != g->n_lps)
		rt_fail("C20", "statistics file: the nodes report %llu LPs in total, the model has %u", (unsigned long long)lps_sum, g->n_lps);
	for(size_t t = 0; t < slots; t++)
		free(cnts[t]);
	for(unsigned k = 0; k < ranks; k++)
		free(tgv[k]);
	free(cnts);
	free(nper);
	free(capper);
	free(tgv);
	free(ntgv);
	free(gv);
out:
	free(R.d);
}

static void check_stats_serial(const char *stats_path)
{
	/* the serial runtime writes one thread; only well-formedness and the GVT column can be judged */
	char path[320];
	snprintf(path, sizeof path, "%s.bin", stats_path);
	FILE *f = fopen(path, "rb");
	if(!f) {
		rt_fail("C20", "a statistics file was requested but %s was not produced (serial runtime)", path);
		return;
	}
	struct sreader R = {0};
	fseek(f, 0, SEEK_END);
	R.n = (size_t)ftell(f);
	fseek(f, 0, SEEK_SET);
	R.d = malloc(R.n + 1);
	if(fread(R.d, 1, R.n, f) != R.n)
		R.bad = 1;
	fclose(f);
	if(rd(&R, 2) != 61455)
		rt_fail("C20", "serial statistics file: wrong magic number");
	int64_t s_cnt = (int64_t)rd(&R, 8);
	for(int64_t i = 0; i < s_cnt && !R.bad; i++)
		R.i += rd(&R, 1);
	int64_t n_cnt = (int64_t)rd(&R, 8);
	uint64_t glob0 = 0;
	for(int i = 0; i < 9; i++) {
		uint64_t v = rd(&R, 8);
		if(!i)
			glob0 = v;
	}
	int64_t n_siz = (int64_t)rd(&R, 8);
	double prev = -1;
	for(int64_t i = 0; i < n_siz / 16 && !R.bad; i++) {
		uint64_t b = rd(&R, 8);
		double gvt;
		memcpy(&gvt, &b, 8);
		(void)rd(&R, 8);
		if(gvt < prev)
			rt_fail("C20", "serial statistics file: GVT column decreases from %a to %a", prev, gvt);
		prev = gvt;
	}
	for(uint64_t t = 0; t < glob0 && !R.bad; t++) {
		int64_t t_siz = (int64_t)rd(&R, 8);
		if(s_cnt > 0 && t_siz / (s_cnt * 8) != n_siz / 16)
			rt_fail("C20", "serial statistics file: %lld thread records, %lld node records", (long long)(t_siz / (s_cnt * 8)), (long long)(n_siz / 16));
		R.i += (size_t)t_siz;
		if(R.i > R.n)
			R.bad = 1;
	}
	if(R.bad || n_cnt != 1 || glob0 != 1 || n_siz % 16)
		rt_fail("C20", "serial statistics file does not parse according to the documented layout (nodes=%lld threads=%llu node array %lld bytes, truncated=%d)",
		    (long long)n_cnt, (unsigned long long)glob0, (long long)n_siz, R.bad);
	else if(R.i != R.n)
		rt_fail("C20", "serial statistics file has %zu trailing bytes", R.n - R.i);
	RT.res->cls[K_STATS_RECORDS] = (uint64_t)(n_siz / 16);
	free(R.d);
}

/* ---- end of run ----------------------------------------------------------------------------------------------------- */
void rt_oracles_end(const char *stats_path)
{
	struct rsv_result *res = RT.res;
	const struct gm_spec *g = &gm_spec;
	rsv_ev_callback = NULL;
	const char *eq_prop = RT.cfg.serial ? "C10" : !strcmp(RT.prop, "C09") ? "C09" : !strcmp(RT.prop, "C02") ? "C02" : "C01";
	/* LP_INIT / LP_FINI exactly once, by the same owner */
	for(unsigned i = 0; i < g->n_lps; i++) {
		const struct gm_report *r = &gm_out.rep[i];
		if(r->init_calls != 1 || r->fini_calls != 1)
			rt_fail(RT.cfg.serial ? "C10" : "C08", "LP %u: LP_INIT dispatched %u times and LP_FINI %u times (each must be exactly once)", i,
			    r->init_calls, r->fini_calls);
		if(!RT.cfg.serial && (r->init_rid != r->fini_rid || r->init_rank != r->fini_rank))
			rt_fail("C14", "LP %u was initialised by thread %d of rank %d but finalised by thread %d of rank %d", i, r->init_rid, r->init_rank,
			    r->fini_rid, r->fini_rank);
	}
	if(getenv("RSV_DUMP_TRACE") && !RT.cfg.serial) { /* debugging aid */
		FILE *f = fopen(getenv("RSV_DUMP_TRACE"), "w");
		size_t n = rsv_trace_n();
		for(size_t i = 0; f && i < n; i++) {
			const struct rsv_rec *r = &rsv_trace[i];
			fprintf(f, "%zu k=%u thr=%d rid=%d p=%p a=%llu b=%llu t=%g | dest=%llu mt=%g type=%u size=%u flags=%x tag=%u\n", i, r->kind, r->thr,
			    r->rid, r->p, (unsigned long long)r->a, (unsigned long long)r->b, r->t, (unsigned long long)r->m_dest, r->m_t, r->m_type,
			    r->m_size, r->m_flags, r->tag);
		}
		if(f)
			fclose(f);
	}
	if(RT.cfg.serial) {
		check_serial();
	} else {
		walk_trace();
#ifdef RSV_E4
		{
			struct fm_stats fs;
			fm_get_stats(&fs);
			res->cls[K_NET_DELAYED] = fs.delayed;
			res->cls[K_NET_OVERTAKES] = fs.overtakes;
			res->cls[K_NET_TEST_SKIPPED] = fs.test_skipped;
			res->cls[K_NET_LEFTOVER] = fs.leftover;
			if(fs.leftover && fs.leftover_min_t < last_max_gvt)
				rt_fail("C04", "a remote message with timestamp %a was still in flight (never received) at shutdown, below the last GVT %a",
				    fs.leftover_min_t, last_max_gvt);
		}
#endif
		res->cls[K_RB_DIGESTS] = n_rb_digest;
		res->cls[K_RB_AT_CKPT] = n_rb_at;
		res->cls[K_RB_BETWEEN] = n_rb_between;
		res->cls[K_FOSSIL_THEN_RB] = n_fossil_then_rb;
		res->cls[K_SPEC_TRUE_ROLLED_BACK] = n_spec_true_rb;
		/* ownership: every event of an LP is processed by the thread that initialised it */
		size_t n = rsv_trace_n();
		if(!rsv_trace_overflow())
			for(size_t i = 0; i < n; i++) {
				const struct rsv_rec *r = &rsv_trace[i];
				if(r->kind == RSV_EV_PROCESS && r->a < g->n_lps &&
				    (r->rid != gm_out.rep[r->a].init_rid || r->rank != gm_out.rep[r->a].init_rank)) {
					rt_fail("C14", "an event of LP %llu was processed by thread %d, the LP is owned by thread %d", (unsigned long long)r->a, r->rid,
					    gm_out.rep[r->a].init_rid);
					break;
				}
			}
	}
	/* end state */
	int all_frozen = 1, all_pred = 1;
	for(unsigned i = 0; i < g->n_lps; i++) {
		all_frozen &= gm_out.rep[i].frozen != 0;
		all_pred &= gm_out.rep[i].pred != 0;
	}
	int stopped = g->stop_lp >= 0;
	if(!stopped && !all_pred && RT.cfg.termination_time == 0 && (RT.cfg.serial || cb_max_gvt < SIMTIME_MAX)) {
		for(unsigned i = 0; i < g->n_lps; i++)
			if(!gm_out.rep[i].pred) {
				rt_fail(RT.cfg.serial ? "C10" : "C07",
				    "the run returned although the termination predicate of LP %u does not hold on its final state (%u of %u events handled; "
				    "no RootsimStop, no termination time)",
				    i, gm_out.rep[i].handled, gm_out.rep[i].goal);
				break;
			}
	}
	if(!stopped && all_frozen && g->post_goal == 0) {
		for(unsigned i = 0; i < g->n_lps; i++)
			if(!g->stateless[i] && gm_out.rep[i].digest != RT.ref.fini_digest[i]) { /* routers keep drawing until the run stops */
				rt_fail(eq_prop,
				    "final state of LP %u differs from the sequential execution (digest %016llx, expected %016llx; handled %u events, goal %u, "
				    "predicate first true at t=%a)",
				    i, (unsigned long long)gm_out.rep[i].digest, (unsigned long long)RT.ref.fini_digest[i], gm_out.rep[i].handled,
				    gm_out.rep[i].goal, RT.ref.tau[i]);
				break;
			}
	}
	/* non-triviality and fingerprint */
	uint64_t fp = rsv_hash_bytes(14695981039346656037ULL, g, sizeof *g);
	fp = rsv_hash_bytes(fp, &RT.cfg, sizeof RT.cfg);
	fp = rsv_mix(fp, res->cls[K_ROLLBACKS] * 1000003 + res->cls[K_ANTI_LOCAL]);
	res->fingerprint = fp;
	const char *p = RT.prop;
	if(RT.cfg.serial)
		res->nontrivial = res->cls[K_TIES] > 0 && res->cls[K_ZERO_DELAY] > 0;
	else if(!strcmp(p, "C03")) {
		unsigned x = 0;
		for(unsigned i = 0; i < g->n_lps; i++)
			x += DS[i].fossils_with_rb_between;
		res->nontrivial = x > 0;
	} else if(!strcmp(p, "C04"))
		res->nontrivial = res->cls[K_GVT_ROUNDS] >= 2 * (RT.cfg.n_threads < g->n_lps ? RT.cfg.n_threads : g->n_lps) && res->cls[K_ROLLBACKS] > 0;
	else if(!strcmp(p, "C06"))
		res->nontrivial = res->cls[K_ANTI_LOCAL] > 0;
	else if(!strcmp(p, "C05"))
		res->nontrivial = res->cls[K_RB_BETWEEN] > 0 && res->cls[K_RB_DIGESTS] > 0;
	else if(!strcmp(p, "C13"))
		res->nontrivial = res->cls[K_FOSSIL_THEN_RB] > 0 && res->cls[K_RB_DIGESTS] > 0;
	else if(!strcmp(p, "C07"))
		res->nontrivial = res->cls[K_TRUE_AT_INIT] || res->cls[K_TRUE_AT_T0] || res->cls[K_SPEC_TRUE_ROLLED_BACK];
	else if(!strcmp(p, "C08"))
		res->nontrivial = RT.cfg.n_threads >= 2 && g->n_lps >= 2 && (g->stop_lp >= 0 || RT.cfg.termination_time != 0 || RT.cfg.gvt_period <= 1);
	else if(!strcmp(p, "C11"))
		res->nontrivial = res->cls[K_ROLLBACKS] > 0 || (res->cls[K_BIG_PAYLOAD] > 0 && res->cls[K_LEFTOVER] > 0);
	else if(!strcmp(p, "C09"))
		res->nontrivial = res->cls[K_ROLLBACKS] > 0 && res->cls[K_LIB_DRAWS] > 0;
	else if(!strcmp(p, "C20"))
		res->nontrivial = res->cls[K_STATS_RECORDS] >= 2 && res->cls[K_ROLLBACKS] > 0;
	else
		res->nontrivial = res->cls[K_ROLLBACKS] > 0;
	if(RT.cfg.stats && stats_path && stats_path[0]) {
		if(RT.cfg.serial)
			check_stats_serial(stats_path);
		else
			check_stats(stats_path);
		if(!strcmp(p, "C20"))
			res->nontrivial = res->cls[K_STATS_RECORDS] >= 2 && (RT.cfg.serial || res->cls[K_ROLLBACKS] > 0);
	}
}
