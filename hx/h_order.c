/* C16: the event order (msg_is_before) is a strict weak order with a content-only tie-break.
 * Real code under test: lp/msg.h (macro + inline), datatypes/heap.h, datatypes/msg_queue.c (q_elem order). */
#include <math.h>
#include <stdlib.h>
#include <string.h>

#include <core/core.h>
#include <datatypes/heap.h>
#include <datatypes/msg_queue.h>
#include <lp/lp.h>
#include <lp/msg.h>

#include "rsv_case.h"

const char *rsv_harness_name = "h_order";
int rsv_fork_mode = 0;
unsigned rsv_default_tape_len = 400;
const char *rsv_rule =
    "tape -> 3..10 events over a pool of <=4 timestamps (0, -0, adjacent doubles, huge, equal), cancellation flag, "
    "type, payload size {0,<=32,>32} and payloads sharing prefixes; oracle: irreflexive/asymmetric/transitive/"
    "incomparability-transitive on all triples, equal results on content-equal copies differing in address, dest, "
    "m_seq, next, sender fields and high flag bits, heap and thread-queue extraction orders never invert the relation; "
    "non-trivial = at least two events share a timestamp; distinct = hash of the content classes of the events";
enum { CL_TIES, CL_BIGPL, CL_ANTI, CL_INCOMP_PAIRS, CL_ORDERED_TIE_PAIRS, CL_HEAP_N, CL_PREFIX_PAIRS };
const char *rsv_class_names[RSV_NCLS] = {"tie_pairs", "payload_gt32", "anti_flagged", "incomparable_pairs",
    "tie_pairs_ordered_by_content", "heap_elements", "shared_prefix_pairs"};

#define MAXM 10

static struct lp_msg *mk(double t, uint32_t flags, uint32_t type, uint32_t size, const unsigned char *pl)
{
	size_t sz = offsetof(struct lp_msg, pl) + (size > MSG_PAYLOAD_BASE_SIZE ? size : MSG_PAYLOAD_BASE_SIZE);
	/* exact-size allocation: an over-read of the payload is an ASan report */
	if(size <= MSG_PAYLOAD_BASE_SIZE)
		sz = sizeof(struct lp_msg);
	struct lp_msg *m = malloc(sz);
	memset(m, 0xAB, sz);
	m->next = NULL;
	m->dest = 0;
	m->dest_t = t;
	m->raw_flags = flags;
	m->m_seq = 0;
	m->m_type = type;
	m->pl_size = size;
#ifndef NDEBUG
	m->send = 0;
	m->send_t = 0;
#endif
	if(size)
		memcpy(m->pl, pl, size);
	return m;
}

static int before(const struct lp_msg *a, const struct lp_msg *b)
{
	return msg_is_before(a, b);
}

static int content_equal(const struct lp_msg *a, const struct lp_msg *b)
{
	return a->dest_t == b->dest_t && (a->raw_flags & MSG_FLAG_ANTI) == (b->raw_flags & MSG_FLAG_ANTI) &&
	       a->m_type == b->m_type && a->pl_size == b->pl_size && !memcmp(a->pl, b->pl, a->pl_size);
}

static void queue_once(void)
{
	static int done;
	if(done)
		return;
	done = 1;
	global_config.n_threads = 1;
	global_config.lps = 4;
	n_lps_node = 4;
	lid_node_first = 0;
	rid = 0;
	msg_queue_global_init();
	msg_queue_init();
}

void rsv_setup(const char *prop)
{
	(void)prop;
}

int rsv_case(const uint8_t *tp, size_t len, struct rsv_result *res)
{
	struct tape T = {tp, len, 0};
	struct tape *t = &T;
	static const double pool_src[] = {0.0, -0.0, 1.0, 0x1.0000000000001p0, 0x1.fffffffffffffp-1, 5e-324, 1e300,
	    DBL_MAX, 3.5, 2.0};
	double pool[4];
	unsigned npool = 1 + t_choice(t, 4);
	for(unsigned i = 0; i < npool; i++)
		pool[i] = pool_src[t_choice(t, sizeof pool_src / sizeof *pool_src)];
	static const uint32_t types[] = {0, 1, 2, 7, 65533, 65534, 65535, 0x7fffffffu, 0x80000000u, 0xffffffffu};
	static const uint32_t sizes[] = {0, 1, 2, 8, 31, 32, 33, 40, 64, 100};
	unsigned char base[100];
	for(unsigned i = 0; i < sizeof base; i++)
		base[i] = (unsigned char)(t_choice(t, 4) * 0x55);
	unsigned n = 3 + t_choice(t, MAXM - 2);
	struct lp_msg *m[MAXM], *c[MAXM];
	uint64_t fp = 0;
	for(unsigned i = 0; i < n; i++) {
		double ts = pool[t_choice(t, npool)];
		uint32_t anti = t_prob(t, 64) ? MSG_FLAG_ANTI : 0;
		uint32_t type = types[t_choice(t, t_prob(t, 128) ? 10 : 3)];
		uint32_t size = sizes[t_choice(t, 10)];
		unsigned char pl[100];
		memcpy(pl, base, sizeof pl);
		unsigned nmut = t_choice(t, 3);
		for(unsigned k = 0; k < nmut && size; k++)
			pl[t_choice(t, size)] = (unsigned char)t_u8(t);
		uint32_t hi = t_prob(t, 100) ? (t_u32(t) & ~(uint32_t)MSG_FLAG_ANTI) : 0;
		m[i] = mk(ts, anti | hi, type, size, pl);
		/* content-equal copy: different address, dest, m_seq, next, sender, high flag bits */
		c[i] = mk(ts, anti | ((t_u32(t) | 2U) & ~(uint32_t)MSG_FLAG_ANTI), type, size, pl);
		c[i]->dest = 1 + t_choice(t, 3);
		c[i]->m_seq = t_u32(t);
		c[i]->next = m[i];
#ifndef NDEBUG
		c[i]->send = 77;
		c[i]->send_t = 0.25;
#endif
		uint64_t ts_bits;
		memcpy(&ts_bits, &ts, 8);
		fp = rsv_mix(fp, ts_bits ^ anti);
		fp = rsv_mix(fp, ((uint64_t)type << 32) | size);
		fp = rsv_hash_bytes(fp, pl, size);
		res->cls[CL_BIGPL] += size > 32;
		res->cls[CL_ANTI] += anti != 0;
	}
	res->fingerprint = fp;
	rsv_sample(res, "n=%u events:", n);
	for(unsigned i = 0; i < n && i < 6; i++)
		rsv_sample(res, " {t=%a anti=%u type=%u size=%u pl0=%02x}", m[i]->dest_t, m[i]->raw_flags & 1U, m[i]->m_type,
		    m[i]->pl_size, m[i]->pl_size ? m[i]->pl[0] : 0);

	int B[MAXM][MAXM];
	for(unsigned i = 0; i < n; i++)
		for(unsigned j = 0; j < n; j++)
			B[i][j] = before(m[i], m[j]);

	for(unsigned i = 0; i < n; i++) {
		if(B[i][i])
			rsv_fail(res, "C16", "not irreflexive: event %u is before itself", i);
		if(before(m[i], c[i]) || before(c[i], m[i]))
			rsv_fail(res, "C16",
			    "order depends on non-content fields: event %u and its content-equal copy (other address/dest/seq/"
			    "high flag bits) are ordered",
			    i);
		for(unsigned j = 0; j < n; j++) {
			if(i != j && m[i]->dest_t == m[j]->dest_t) {
				res->cls[CL_TIES] += i < j;
				if(i < j && (B[i][j] || B[j][i]))
					res->cls[CL_ORDERED_TIE_PAIRS]++;
			}
			if(i < j && !B[i][j] && !B[j][i])
				res->cls[CL_INCOMP_PAIRS]++;
			if(i < j && m[i]->pl_size == m[j]->pl_size && m[i]->pl_size > 1 && m[i]->pl[0] == m[j]->pl[0] &&
			    memcmp(m[i]->pl, m[j]->pl, m[i]->pl_size))
				res->cls[CL_PREFIX_PAIRS]++;
			if(B[i][j] && B[j][i])
				rsv_fail(res, "C16", "not asymmetric: events %u and %u are each before the other", i, j);
			/* the relation must be the same on content-equal copies, in all four combinations */
			if(before(c[i], c[j]) != B[i][j] || before(m[i], c[j]) != B[i][j] || before(c[i], m[j]) != B[i][j])
				rsv_fail(res, "C16",
				    "order not content-only: before(%u,%u)=%d but content-equal copies give %d/%d/%d", i, j,
				    B[i][j], before(c[i], c[j]), before(m[i], c[j]), before(c[i], m[j]));
			if(m[i]->dest_t < m[j]->dest_t && !B[i][j])
				rsv_fail(res, "C16", "earlier timestamp not ordered first (%u,%u)", i, j);
			if(content_equal(m[i], m[j]) && (B[i][j] || B[j][i]))
				rsv_fail(res, "C16", "two events with identical content (%u,%u) are ordered", i, j);
			for(unsigned k = 0; k < n; k++) {
				if(B[i][j] && B[j][k] && !B[i][k])
					rsv_fail(res, "C16", "not transitive: %u<%u<%u but not %u<%u", i, j, k, i, k);
				int inc_ij = !B[i][j] && !B[j][i], inc_jk = !B[j][k] && !B[k][j],
				    inc_ik = !B[i][k] && !B[k][i];
				if(inc_ij && inc_jk && !inc_ik)
					rsv_fail(res, "C16", "incomparability not transitive on (%u,%u,%u)", i, j, k);
			}
		}
	}
	res->nontrivial = res->cls[CL_TIES] > 0;

	/* heap built with the relation never extracts an element that is before an earlier one */
	{
		heap_declare(struct lp_msg *) h;
		heap_init(h);
		unsigned tot = 0;
		for(unsigned r = 0; r < 2; r++)
			for(unsigned i = 0; i < n; i++) {
				struct lp_msg *e = r ? c[i] : m[i];
				heap_insert(h, msg_is_before, e);
				tot++;
			}
		struct lp_msg *prev = NULL;
		unsigned got = 0;
		while(!heap_is_empty(h)) {
			struct lp_msg *e = heap_extract(h, msg_is_before);
			got++;
			if(prev && before(e, prev))
				rsv_fail(res, "C16", "heap extraction order inverts the relation at position %u", got);
			prev = e;
		}
		if(got != tot)
			rsv_fail(res, "C16", "heap lost elements: %u of %u", got, tot);
		res->cls[CL_HEAP_N] += tot;
		heap_fini(h);
	}
	/* the thread queue (its private element order) agrees with the relation */
	{
		queue_once();
		for(unsigned i = 0; i < n; i++) {
			m[i]->dest = 0;
			c[i]->dest = 0;
			msg_queue_insert(m[i]);
			msg_queue_insert(c[i]);
		}
		struct lp_msg *prev = NULL, *e;
		unsigned got = 0;
		while((e = msg_queue_extract()) != NULL) {
			got++;
			if(prev && before(e, prev))
				rsv_fail(res, "C16", "thread-queue extraction order inverts the relation at position %u", got);
			prev = e;
		}
		if(got != 2 * n)
			rsv_fail(res, "C16", "thread queue returned %u of %u events", got, 2 * n);
	}
	for(unsigned i = 0; i < n; i++) {
		free(m[i]);
		free(c[i]);
	}
	return res->verdict;
}
