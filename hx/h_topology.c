/* C19: topology queries are mutually consistent and the random choice is a pure function of the caller's
 * generator state.  Real code under test: lib/topology/topology.c (+ random.c). */
#include <pthread.h>
#include <stdlib.h>
#include <string.h>

#include <core/core.h>
#include <lib/random/random.h>
#include <lp/lp.h>

#include "rsv_case.h"

const char *rsv_harness_name = "h_topology";
int rsv_fork_mode = 1; /* the library keeps static state: every case starts from a pristine process */
unsigned rsv_default_tape_len = 200;
const char *rsv_rule =
    "tape -> geometry (8 kinds), width/height 1..8 or regions 1..40 (degenerate sizes weighted), graph links with "
    "re-added pairs, generator states, a script of queries; oracle: every GetReceiver result is INVALID_DIRECTION or a "
    "region < regions that IsNeighbor confirms; DIRECTION_RANDOM valid iff a neighbour exists; CountDirections equals "
    "the count defined by the property; purity: same generator state => same random neighbour regardless of earlier "
    "calls, calls by other LPs in between, or 4 concurrent threads; only the caller's generator changes; non-trivial = "
    "degenerate size (a dimension or the region count is 1) or a purity pair with an intervening foreign call; "
    "distinct = hash of (geometry, size, links, query script)";
enum { CL_G1, CL_G2, CL_G3, CL_G4, CL_G5, CL_G6, CL_G7, CL_G8, CL_DEGEN, CL_PURITY, CL_THREADS, CL_RANDOM_INVALID,
	CL_GRAPH_READD, CL_QUERIES };
const char *rsv_class_names[RSV_NCLS] = {"geom_hexagon", "geom_square", "geom_torus", "geom_ring", "geom_bidring", "geom_star",
    "geom_fcmesh", "geom_graph", "degenerate_size", "purity_pairs", "threaded_cases", "random_returned_invalid",
    "graph_links_readded", "queries"};

#define NLP 6
static struct lp_ctx mock_lps[NLP];
static struct rng_ctx mock_rng[NLP];

void rsv_setup(const char *prop)
{
	(void)prop;
	lps = mock_lps;
	lid_node_first = 0;
	n_lps_node = NLP;
	global_config.lps = NLP;
	for(int i = 0; i < NLP; i++)
		mock_lps[i].rng_ctx = &mock_rng[i];
}

static void seed_lp(int i, uint64_t s)
{
	for(int j = 0; j < 4; j++)
		mock_rng[i].state[j] = rsv_mix(s + 1, (uint64_t)j + 1) | 1ULL;
}

struct topo_case {
	struct topology *tp;
	unsigned geom, w, h, regions;
	unsigned char link[40][40];
	unsigned nlinks[40];
};

static int is_grid(unsigned g)
{
	return g == TOPOLOGY_HEXAGON || g == TOPOLOGY_SQUARE || g == TOPOLOGY_TORUS;
}

/* number the property prescribes for CountDirections */
static lp_id_t expected_count(struct topo_case *c, lp_id_t from)
{
	switch(c->geom) {
		case TOPOLOGY_STAR:
			return from == 0 ? c->regions - 1 : 1;
		case TOPOLOGY_FCMESH:
			return c->regions - 1;
		case TOPOLOGY_GRAPH:
			return c->nlinks[from];
		default: {
			lp_id_t n = 0;
			for(int d = 0; d < DIRECTION_RANDOM; d++)
				n += GetReceiver(from, c->tp, d) != INVALID_DIRECTION;
			return n;
		}
	}
}

static int neighbour_exists(struct topo_case *c, lp_id_t from)
{
	switch(c->geom) {
		case TOPOLOGY_STAR:
			return from != 0 || c->regions > 1;
		case TOPOLOGY_FCMESH:
			return c->regions > 1;
		case TOPOLOGY_GRAPH:
			return c->nlinks[from] > 0;
		default:
			for(int d = 0; d < DIRECTION_RANDOM; d++)
				if(GetReceiver(from, c->tp, d) != INVALID_DIRECTION)
					return 1;
			return 0;
	}
}

struct thr_job {
	struct topo_case *c;
	int lp;
	unsigned n;
	lp_id_t from[32];
	uint64_t seed[32];
	lp_id_t out[32];
};

static void *thr_fn(void *p)
{
	struct thr_job *j = p;
	current_lp = &mock_lps[j->lp];
	for(unsigned r = 0; r < 40; r++)
		for(unsigned i = 0; i < j->n; i++) {
			seed_lp(j->lp, j->seed[i]);
			j->out[i] = GetReceiver(j->from[i], j->c->tp, DIRECTION_RANDOM);
		}
	return NULL;
}

int rsv_case(const uint8_t *tape, size_t len, struct rsv_result *res)
{
	struct tape T = {tape, len, 0}, *t = &T;
	struct topo_case C;
	memset(&C, 0, sizeof C);
	C.geom = 1 + t_choice(t, 8);
	static const unsigned dims[] = {1, 1, 2, 3, 4, 5, 8, 1, 2, 7};
	if(is_grid(C.geom)) {
		C.w = dims[t_choice(t, 10)];
		C.h = dims[t_choice(t, 10)];
		C.regions = C.w * C.h;
		C.tp = vInitializeTopology(C.geom, 2, C.h, C.w);
	} else {
		static const unsigned regs[] = {1, 2, 3, 4, 5, 7, 16, 40, 1, 2};
		C.regions = regs[t_choice(t, 10)];
		C.tp = vInitializeTopology(C.geom, 1, C.regions);
	}
	if(!C.tp)
		return rsv_fail(res, "C19", "InitializeTopology failed for geometry %u regions %u", C.geom, C.regions);
	res->cls[CL_G1 + C.geom - 1] = 1;
	int degenerate = C.regions == 1 || (is_grid(C.geom) && (C.w == 1 || C.h == 1));
	res->cls[CL_DEGEN] = degenerate;
	uint64_t fp = rsv_mix(C.geom, ((uint64_t)C.w << 32) | C.h | ((uint64_t)C.regions << 16));
	if(C.geom == TOPOLOGY_GRAPH) {
		unsigned nl = t_choice(t, 24);
		for(unsigned i = 0; i < nl; i++) {
			unsigned a = t_choice(t, C.regions), b = t_choice(t, C.regions);
			double p = (double)t_choice(t, 5) / 4.0;
			if(!AddTopologyLink(C.tp, a, b, p))
				rsv_fail(res, "C19", "AddTopologyLink(%u,%u,%g) refused", a, b, p);
			if(C.link[a][b])
				res->cls[CL_GRAPH_READD]++;
			else
				C.nlinks[a]++;
			C.link[a][b] = 1;
			fp = rsv_mix(fp, a * 64 + b);
		}
	}
	rsv_sample(res, "geom=%u w=%u h=%u regions=%u", C.geom, C.w, C.h, C.regions);
	if(CountRegions(C.tp) != C.regions)
		rsv_fail(res, "C19", "CountRegions=%llu expected %u", (unsigned long long)CountRegions(C.tp), C.regions);

	unsigned nq = 1 + t_choice(t, 12);
	int purity = 0;
	for(unsigned q = 0; q < nq && res->verdict != RSV_FAIL; q++) {
		lp_id_t from = t_choice(t, C.regions);
		int lp = (int)t_choice(t, NLP);
		uint64_t st = t_u32(t);
		fp = rsv_mix(fp, from * 7 + (unsigned)lp);
		res->cls[CL_QUERIES]++;
		current_lp = &mock_lps[lp];
		seed_lp(lp, st);
		/* (a) fixed directions: skip the geometries for which the library logs an error on fixed directions
		 * most of the time (it is legal and must return INVALID, but floods the log) */
		int fixed_ok = C.geom <= TOPOLOGY_BIDRING || t_prob(t, 16);
		if(fixed_ok)
			for(int d = 0; d < DIRECTION_RANDOM; d++) {
				struct rng_ctx b4 = mock_rng[lp];
				lp_id_t r = GetReceiver(from, C.tp, d);
				if(r != INVALID_DIRECTION && (r >= C.regions || !IsNeighbor(from, r, C.tp)))
					rsv_fail(res, "C19", "geom %u %ux%u/%u: GetReceiver(%llu, dir %d) = %llu is not a region that IsNeighbor confirms",
					    C.geom, C.w, C.h, C.regions, (unsigned long long)from, d, (unsigned long long)r);
				if(memcmp(&b4, &mock_rng[lp], sizeof b4))
					rsv_fail(res, "C19", "a fixed-direction query consumed random numbers");
			}
		/* (c) CountDirections */
		lp_id_t cnt = CountDirections(from, C.tp), exp = expected_count(&C, from);
		if(cnt != exp)
			rsv_fail(res, "C19", "geom %u %ux%u/%u: CountDirections(%llu) = %llu, the property prescribes %llu", C.geom,
			    C.w, C.h, C.regions, (unsigned long long)from, (unsigned long long)cnt, (unsigned long long)exp);
		/* (b) random direction */
		struct rng_ctx others[NLP];
		seed_lp(lp, st);
		memcpy(others, mock_rng, sizeof others);
		int exists = neighbour_exists(&C, from);
		seed_lp(lp, st);
		lp_id_t r1 = GetReceiver(from, C.tp, DIRECTION_RANDOM);
		for(int i = 0; i < NLP; i++)
			if(i != lp && memcmp(&others[i], &mock_rng[i], sizeof others[i]))
				rsv_fail(res, "C19", "random query by LP %d changed the generator of LP %d", lp, i);
		if(r1 == INVALID_DIRECTION) {
			res->cls[CL_RANDOM_INVALID]++;
			if(exists)
				rsv_fail(res, "C19", "geom %u %ux%u/%u: DIRECTION_RANDOM from %llu returned INVALID although a neighbour exists",
				    C.geom, C.w, C.h, C.regions, (unsigned long long)from);
		} else if(r1 >= C.regions || !IsNeighbor(from, r1, C.tp)) {
			rsv_fail(res, "C19", "geom %u %ux%u/%u: DIRECTION_RANDOM from %llu returned %llu which is not a confirmed neighbour (neighbour exists: %d)",
			    C.geom, C.w, C.h, C.regions, (unsigned long long)from, (unsigned long long)r1, exists);
		}
		/* (d) purity: same state, after foreign calls in between -> same answer */
		unsigned nforeign = t_choice(t, 4);
		for(unsigned k = 0; k < nforeign; k++) {
			int olp = (int)t_choice(t, NLP);
			current_lp = &mock_lps[olp];
			seed_lp(olp, t_u32(t));
			(void)GetReceiver(t_choice(t, C.regions), C.tp, DIRECTION_RANDOM);
		}
		current_lp = &mock_lps[lp];
		seed_lp(lp, st);
		lp_id_t r2 = GetReceiver(from, C.tp, DIRECTION_RANDOM);
		purity += nforeign > 0;
		res->cls[CL_PURITY] += nforeign > 0;
		if(r1 != r2)
			rsv_fail(res, "C19",
			    "geom %u %ux%u/%u: random neighbour of %llu is not a function of the caller's generator state: %llu, then %llu "
			    "after %u intervening calls (same state)",
			    C.geom, C.w, C.h, C.regions, (unsigned long long)from, (unsigned long long)r1, (unsigned long long)r2, nforeign);
	}
	/* (e) concurrent callers, each with its own LP: results must equal the sequential ones */
	if(res->verdict != RSV_FAIL && t_prob(t, 40)) {
		res->cls[CL_THREADS] = 1;
		struct thr_job jobs[4];
		lp_id_t expect[4][32];
		for(int k = 0; k < 4; k++) {
			jobs[k].c = &C;
			jobs[k].lp = k;
			jobs[k].n = 8;
			for(unsigned i = 0; i < jobs[k].n; i++) {
				jobs[k].from[i] = t_choice(t, C.regions);
				jobs[k].seed[i] = t_u32(t);
				current_lp = &mock_lps[k];
				seed_lp(k, jobs[k].seed[i]);
				expect[k][i] = GetReceiver(jobs[k].from[i], C.tp, DIRECTION_RANDOM);
			}
		}
		pthread_t th[4];
		for(int k = 0; k < 4; k++)
			pthread_create(&th[k], NULL, thr_fn, &jobs[k]);
		for(int k = 0; k < 4; k++)
			pthread_join(th[k], NULL);
		for(int k = 0; k < 4; k++)
			for(unsigned i = 0; i < jobs[k].n; i++)
				if(jobs[k].out[i] != expect[k][i])
					rsv_fail(res, "C19", "geom %u: concurrent callers: thread %d got neighbour %llu, sequentially %llu for the same state",
					    C.geom, k, (unsigned long long)jobs[k].out[i], (unsigned long long)expect[k][i]);
	}
	res->nontrivial = degenerate || purity > 0;
	res->fingerprint = fp;
	ReleaseTopology(C.tp);
	return res->verdict;
}
