#include "mpi.h"

#include <float.h>
#include <stdio.h>
#include <stdlib.h>
#include <string.h>

extern void rsv_yield(int site);
extern uint64_t rsv_rand(void);
extern uint64_t rsv_steps(void);
extern int rsv_get_rank(void);
extern int rsv_cur_thread(void);

#define SITE_PROBE 20
#define SITE_MPROBE 21
#define SITE_TEST 22
#define SITE_BARRIER 23

struct fm_msg {
	struct fm_msg *next;
	int src, src_thr, tag, size;
	uint64_t visible_at, serial;
	unsigned char data[];
};
static struct fm_cfg cfg = {.nranks = 1};
static struct fm_msg *box[FM_MAXR];
static struct fm_stats ST;
static uint64_t serial;

void fm_configure(const struct fm_cfg *c)
{
	cfg = *c;
	memset(&ST, 0, sizeof ST);
	ST.leftover_min_t = DBL_MAX;
}

void fm_get_stats(struct fm_stats *out)
{
	ST.leftover = 0;
	ST.leftover_min_t = DBL_MAX;
	for(int r = 0; r < cfg.nranks; r++)
		for(struct fm_msg *m = box[r]; m; m = m->next) {
			if(m->tag != 0 || m->size <= (int)sizeof(int))
				continue; /* control / data messages */
			ST.leftover++;
			double t;
			memcpy(&t, m->data + 8, sizeof t); /* lp_msg: dest (8 bytes), then dest_t */
			if(t < ST.leftover_min_t)
				ST.leftover_min_t = t;
		}
	*out = ST;
}

int MPI_Init_thread(int *argc, char ***argv, int required, int *provided)
{
	(void)argc;
	(void)argv;
	*provided = required;
	return 0;
}
int MPI_Finalize(void)
{
	return 0;
}
int MPI_Comm_create_errhandler(MPI_Comm_errhandler_function *fn, MPI_Errhandler *eh)
{
	(void)fn;
	*eh = 1;
	return 0;
}
int MPI_Comm_set_errhandler(MPI_Comm c, MPI_Errhandler eh)
{
	(void)c;
	(void)eh;
	return 0;
}
int MPI_Comm_get_errhandler(MPI_Comm c, MPI_Errhandler *eh)
{
	(void)c;
	*eh = 1;
	return 0;
}
int MPI_Errhandler_free(MPI_Errhandler *eh)
{
	*eh = 0;
	return 0;
}
int MPI_Error_string(int code, char *str, int *len)
{
	(void)code;
	str[0] = 0;
	*len = 0;
	return 0;
}
int MPI_Comm_rank(MPI_Comm c, int *rank)
{
	(void)c;
	*rank = rsv_get_rank();
	return 0;
}
int MPI_Comm_size(MPI_Comm c, int *size)
{
	(void)c;
	*size = cfg.nranks;
	return 0;
}

static void enqueue(const void *buf, int size, int dest, int tag)
{
	struct fm_msg *m = malloc(sizeof *m + (size_t)(size > 0 ? size : 1));
	m->next = NULL;
	m->src = rsv_get_rank();
	m->src_thr = rsv_cur_thread();
	m->tag = tag;
	m->size = size;
	m->serial = ++serial;
	if(size > 0) /* MPI allows a null buffer with count 0 (an empty statistics file is sent that way) */
		memcpy(m->data, buf, (size_t)size); /* eager protocol: the buffer is read at the time of the send */
	uint64_t d = 0;
	if(cfg.delay_max && (rsv_rand() & 255) < cfg.delay_prob) {
		d = rsv_rand() % cfg.delay_max;
		ST.delayed++;
	}
	m->visible_at = rsv_steps() + d;
	struct fm_msg **p = &box[dest];
	while(*p)
		p = &(*p)->next;
	*p = m;
	ST.sent++;
	if(size == (int)sizeof(int))
		ST.ctrl++;
}

int MPI_Isend(const void *buf, int count, MPI_Datatype t, int dest, int tag, MPI_Comm c, MPI_Request *req)
{
	(void)t;
	(void)c;
	enqueue(buf, count, dest, tag);
	*req = MPI_REQUEST_NULL;
	return 0;
}
int MPI_Request_free(MPI_Request *req)
{
	*req = MPI_REQUEST_NULL;
	return 0;
}
int MPI_Send(const void *buf, int count, MPI_Datatype t, int dest, int tag, MPI_Comm c)
{
	(void)t;
	(void)c;
	enqueue(buf, count, dest, tag);
	return 0;
}

/* first deliverable message for the calling rank: per (sender thread) stream FIFO, streams served in any order */
static struct fm_msg *take(int src, int tag)
{
	int me = rsv_get_rank();
	uint64_t now = rsv_steps();
	uint64_t blocked[4] = {0, 0, 0, 0}; /* streams whose head is not visible yet */
	struct fm_msg **cand[64];
	int nc = 0;
	uint64_t cand_serial_min = UINT64_MAX;
	for(struct fm_msg **p = &box[me]; *p; p = &(*p)->next) {
		struct fm_msg *m = *p;
		if(m->tag != tag || (src != MPI_ANY_SOURCE && m->src != src))
			continue;
		unsigned sid = (unsigned)(m->src_thr & 255);
		if(blocked[sid >> 6] >> (sid & 63) & 1)
			continue;
		blocked[sid >> 6] |= 1ULL << (sid & 63); /* only the head of each stream is eligible */
		if(m->visible_at > now)
			continue;
		if(nc < 64)
			cand[nc++] = p;
		if(m->serial < cand_serial_min)
			cand_serial_min = m->serial;
	}
	if(!nc)
		return NULL;
	int k = 0;
	if(nc > 1 && (rsv_rand() & 255) < cfg.reorder_streams)
		k = (int)(rsv_rand() % (unsigned)nc);
	struct fm_msg *m = *cand[k];
	if(m->serial != cand_serial_min)
		ST.overtakes++;
	*cand[k] = m->next;
	ST.delivered++;
	return m;
}

int MPI_Improbe(int src, int tag, MPI_Comm c, int *flag, MPI_Message *msg, MPI_Status *st)
{
	(void)c;
	rsv_yield(SITE_PROBE);
	struct fm_msg *m = take(src, tag);
	if(!m) {
		*flag = 0;
		return 0;
	}
	*flag = 1;
	*msg = m;
	st->MPI_SOURCE = m->src;
	st->MPI_TAG = tag;
	st->MPI_ERROR = 0;
	st->count = m->size;
	return 0;
}
int MPI_Mprobe(int src, int tag, MPI_Comm c, MPI_Message *msg, MPI_Status *st)
{
	int f = 0;
	while(1) {
		MPI_Improbe(src, tag, c, &f, msg, st);
		if(f)
			break;
		rsv_yield(SITE_MPROBE);
	}
	return 0;
}
int MPI_Get_count(const MPI_Status *st, MPI_Datatype t, int *count)
{
	(void)t;
	*count = st->count;
	return 0;
}
int MPI_Mrecv(void *buf, int count, MPI_Datatype t, MPI_Message *msg, MPI_Status *st)
{
	(void)t;
	(void)st;
	struct fm_msg *m = *msg;
	if(m->size > 0 && count > 0)
		memcpy(buf, m->data, (size_t)(m->size < count ? m->size : count));
	free(m);
	*msg = NULL;
	return 0;
}

/* ---- non-blocking collectives: one outstanding instance per kind --------------------------------------------------- */
struct coll {
	int joined, collected, polls_needed[FM_MAXR];
	uint32_t sum[FM_MAXR];
	double mn;
	void *res[FM_MAXR];
};
struct fm_req {
	int kind;
};
static struct coll CS, CM;
static struct fm_req RQ_S = {1}, RQ_M = {2};

int MPI_Ireduce_scatter_block(const void *sb, void *rb, int n, MPI_Datatype t, MPI_Op op, MPI_Comm c, MPI_Request *req)
{
	(void)n;
	(void)t;
	(void)op;
	(void)c;
	const uint32_t *v = sb;
	int me = rsv_get_rank();
	if(CS.joined == 0)
		memset(CS.sum, 0, sizeof CS.sum);
	for(int i = 0; i < cfg.nranks; i++)
		CS.sum[i] += v[i];
	CS.res[me] = rb;
	CS.joined++;
	ST.collectives++;
	*req = &RQ_S;
	return 0;
}
int MPI_Iallreduce(const void *sb, void *rb, int n, MPI_Datatype t, MPI_Op op, MPI_Comm c, MPI_Request *req)
{
	(void)n;
	(void)t;
	(void)op;
	(void)c;
	double v = *(const double *)sb;
	int me = rsv_get_rank();
	if(CM.joined == 0 || v < CM.mn)
		CM.mn = v;
	CM.res[me] = rb;
	CM.joined++;
	ST.collectives++;
	*req = &RQ_M;
	return 0;
}
int MPI_Test(MPI_Request *req, int *flag, MPI_Status *st)
{
	(void)st;
	rsv_yield(SITE_TEST);
	*flag = 0;
	if(*req == MPI_REQUEST_NULL) {
		*flag = 1;
		return 0;
	}
	struct coll *C = (*req)->kind == 1 ? &CS : &CM;
	int me = rsv_get_rank();
	if(C->joined < cfg.nranks)
		return 0;
	if(cfg.test_skip && (rsv_rand() & 255) < cfg.test_skip) {
		ST.test_skipped++;
		return 0;
	}
	if((*req)->kind == 1)
		*(uint32_t *)C->res[me] = C->sum[me];
	else
		*(double *)C->res[me] = C->mn;
	*flag = 1;
	*req = MPI_REQUEST_NULL;
	if(++C->collected == cfg.nranks) {
		C->collected = 0;
		C->joined = 0;
	}
	return 0;
}

static int bar_cnt, bar_gen;
int MPI_Barrier(MPI_Comm c)
{
	(void)c;
	int g = bar_gen;
	ST.barriers++;
	if(++bar_cnt == cfg.nranks) {
		bar_cnt = 0;
		bar_gen++;
	} else
		while(bar_gen == g)
			rsv_yield(SITE_BARRIER);
	return 0;
}
