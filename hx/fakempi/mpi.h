/* Minimal in-process MPI used by the multi-rank engine (E4).  Only what distributed/mpi.c needs.
 * All ranks live in one process as renamed copies of the core; every call happens under the deterministic
 * scheduler (one thread runs at a time), so no locking is needed.  Delivery delays, the order in which streams of
 * different sender threads are served and the completion time of the non-blocking collectives are taken from the
 * generated schedule. */
#ifndef FAKE_MPI_H
#define FAKE_MPI_H
#include <stdint.h>

typedef int MPI_Comm;
typedef int MPI_Datatype;
typedef int MPI_Op;
typedef int MPI_Errhandler;
struct fm_req;
struct fm_msg;
typedef struct fm_req *MPI_Request;
typedef struct fm_msg *MPI_Message;
typedef struct {
	int MPI_SOURCE, MPI_TAG, MPI_ERROR, count;
} MPI_Status;
typedef void MPI_Comm_errhandler_function(MPI_Comm *, int *, ...);

#define MPI_COMM_WORLD 0
#define MPI_BYTE 1
#define MPI_UINT32_T 2
#define MPI_DOUBLE 3
#define MPI_SUM 1
#define MPI_MIN 2
#define MPI_ANY_SOURCE (-1)
#define MPI_THREAD_SINGLE 0
#define MPI_THREAD_MULTIPLE 3
#define MPI_REQUEST_NULL ((MPI_Request)0)
#define MPI_STATUS_IGNORE ((MPI_Status *)0)
#define MPI_MAX_ERROR_STRING 256
#define MPI_SUCCESS 0

int MPI_Init_thread(int *argc, char ***argv, int required, int *provided);
int MPI_Finalize(void);
int MPI_Comm_create_errhandler(MPI_Comm_errhandler_function *fn, MPI_Errhandler *eh);
int MPI_Comm_set_errhandler(MPI_Comm c, MPI_Errhandler eh);
int MPI_Comm_get_errhandler(MPI_Comm c, MPI_Errhandler *eh);
int MPI_Errhandler_free(MPI_Errhandler *eh);
int MPI_Error_string(int code, char *str, int *len);
int MPI_Comm_rank(MPI_Comm c, int *rank);
int MPI_Comm_size(MPI_Comm c, int *size);
int MPI_Isend(const void *buf, int count, MPI_Datatype t, int dest, int tag, MPI_Comm c, MPI_Request *req);
int MPI_Request_free(MPI_Request *req);
int MPI_Improbe(int src, int tag, MPI_Comm c, int *flag, MPI_Message *msg, MPI_Status *st);
int MPI_Mprobe(int src, int tag, MPI_Comm c, MPI_Message *msg, MPI_Status *st);
int MPI_Get_count(const MPI_Status *st, MPI_Datatype t, int *count);
int MPI_Mrecv(void *buf, int count, MPI_Datatype t, MPI_Message *msg, MPI_Status *st);
int MPI_Send(const void *buf, int count, MPI_Datatype t, int dest, int tag, MPI_Comm c);
int MPI_Ireduce_scatter_block(const void *sb, void *rb, int n, MPI_Datatype t, MPI_Op op, MPI_Comm c, MPI_Request *req);
int MPI_Iallreduce(const void *sb, void *rb, int n, MPI_Datatype t, MPI_Op op, MPI_Comm c, MPI_Request *req);
int MPI_Test(MPI_Request *req, int *flag, MPI_Status *st);
int MPI_Barrier(MPI_Comm c);

/* harness side */
#define FM_MAXR 8
struct fm_cfg {
	int nranks;
	unsigned delay_max;      /* a message becomes visible 0..delay_max scheduler steps after it was sent */
	unsigned delay_prob;     /* probability (/256) that a message is delayed at all */
	unsigned test_skip;      /* probability (/256) that MPI_Test on a complete collective still says "not yet" */
	unsigned reorder_streams; /* probability (/256) that a probe starts scanning at a random stream */
};
void fm_configure(const struct fm_cfg *cfg);
struct fm_stats {
	unsigned long sent, delivered, delayed, ctrl, overtakes, barriers, collectives, test_skipped, leftover;
	double leftover_min_t; /* smallest model timestamp among messages never received (DBL_MAX: none) */
};
void fm_get_stats(struct fm_stats *out);
#endif
