/* The generated model family ("programs"): one interpreter for a generated ModelSpec.
 * gm_model.c is compiled twice: against the ROOT-Sim API (runtime under test) and, with GM_REF defined,
 * against the reference environment of refexec.c. */
#ifndef GM_MODEL_H
#define GM_MODEL_H
#include <stdbool.h>
#include <stdint.h>
#include <stddef.h>

#define GM_MAXLP 64
#define GM_MAXRULES 8
#define GM_MAXACT 6
#define GM_MAXPL 4000
#define GM_HB_TYPE 60000u

enum gm_act_kind { GA_NONE = 0, GA_SEND, GA_MEM, GA_DRAW, GA_WRITE };

struct gm_act {
	uint8_t kind;
	uint8_t a, b, c;
};
struct gm_rule {
	uint8_t n_act;
	struct gm_act act[GM_MAXACT];
};

struct gm_spec {
	uint32_t n_lps;
	uint64_t seed;
	uint8_t time_mode;      /* 0 continuous, 1 integer grid (ties), 2 mixed */
	uint8_t lookahead_mode; /* 0 none (delays may be one ulp), 1 small, 2 large */
	uint8_t zero_delay;     /* probability (/256) that a send is zero-delay (if its ttl allows) */
	uint8_t send_prob;      /* probability (/256) that a SEND action fires */
	uint8_t dest_mode;      /* 0 uniform, 1 ring neighbour, 2 hot spot (fan-in to LP 0), 3 self, 4 drip (rare sends to LP 0) */
	uint8_t payload_mode;   /* 0 none, 1 small (<=32), 2 mixed incl. >32, 3 big (4000) occasionally */
	uint16_t post_goal;     /* events an LP keeps handling (and sending) AFTER its predicate holds, before it freezes; 0 = the
	                           C01 family (state frozen once the predicate holds) */
	uint8_t relay_budget;   /* per heartbeat, how many events an LP may relay UNCHANGED (same type and payload) with zero delay:
	                           events the order cannot tell from the one being handled */
	uint8_t drip_k;         /* drip destination mode: an LP sends to LP 0 once every drip_k handled events (0: 3 + seed % 13) */
	uint8_t victim_nohb;    /* LP 0 has no heartbeat of its own: it only advances through events sent by the others */
	uint8_t chain_len;      /* length of zero-delay chains (0: only the short ttl<=3 chains encoded in the type) */
	uint8_t chain_start;    /* probability (/256) that a heartbeat starts a zero-delay chain of its own */
	uint8_t hb_scale;       /* heartbeat period multiplier: large values give sparse, well separated activity */
	uint8_t init_zero;      /* every extra event scheduled at init is at timestamp 0 */
	uint8_t endless;        /* LPs never freeze and their heartbeats never stop: the run ends only if the runtime's termination
	                           detection ends it (C08 liveness family; the reference executor stops at a horizon) */
	uint8_t n_rules;
	struct gm_rule rules[GM_MAXRULES];
	uint16_t goal[GM_MAXLP]; /* handled events after which the LP freezes; 0: frozen at init */
	uint8_t t0_zero[GM_MAXLP]; /* first heartbeat at t = 0 */
	uint8_t stateless[GM_MAXLP]; /* "router" LPs: never call SetState (NULL state pointer); all they have is the library RNG, which
	                                drives what they forward, until GM_ROUTER_HORIZON; their predicate holds from the start */
	uint8_t init_sends;      /* extra events scheduled at init (some at t = 0) */
	uint8_t init_bufs;       /* buffers allocated at init */
	int32_t stop_lp;         /* RootsimStop() from the handler of (stop_lp, stop_at-th handled event); -1: never */
	uint32_t stop_at;        /* 0: during LP_INIT */
};

#define GM_ROUTER_HORIZON 40.0

struct gm_dispatch {
	uint32_t lp;
	uint32_t type, size;
	double t;
	uint64_t plhash;
};

/* per-LP results reported at LP_FINI */
struct gm_report {
	uint32_t init_calls, fini_calls;
	int16_t init_rid, fini_rid, init_rank, fini_rank;
	uint64_t digest;
	uint32_t handled, goal, frozen, pred;
	double frozen_at; /* timestamp of the event that froze the LP (-1: at init) */
};

struct gm_env_out {
	struct gm_report rep[GM_MAXLP];
	struct gm_dispatch *log; /* dispatch log (serial runtime / reference only) */
	size_t log_n, log_cap;
	int log_enabled;
	uint64_t contract_breaches; /* sends that would precede the event being handled (generator bug) */
	uint64_t zero_delay_sent, zero_delay_bumped, big_payload_sent, ties_sent, lib_draws, mem_ops, big_alloc_failed;
};

extern struct gm_spec gm_spec;

/* runtime-side model */
extern struct gm_env_out gm_out;
extern void gm_ProcessEvent(uint64_t me, double now, unsigned type, const void *content, unsigned size, void *st);
extern bool gm_CanEnd(uint64_t me, const void *snapshot);
extern uint64_t gm_state_digest(const void *st);
/* reference-side model */
extern struct gm_env_out ref_gm_out;
extern void ref_gm_ProcessEvent(uint64_t me, double now, unsigned type, const void *content, unsigned size, void *st);
extern bool ref_gm_CanEnd(uint64_t me, const void *snapshot);
extern uint64_t ref_gm_state_digest(const void *st);

#endif
