/* Hook runtime for the ROOT_SIM_CORE_VERIF hooks: deterministic baton scheduler (DET),
 * perturbed real threads (FREE), virtual clock and trace buffer.
 * Compiled per check against /repo's headers (it snapshots struct lp_msg). */
#define _GNU_SOURCE
#include <pthread.h>
#include <sched.h>
#include <semaphore.h>
#include <stdatomic.h>
#include <stdint.h>
#include <stdio.h>
#include <stdlib.h>
#include <string.h>
#include <time.h>
#include <unistd.h>

#include <lp/msg.h>
#include <lp/process.h>
#include <verif/rsv.h>

#include "rsv_rt.h"

enum { ST_FREE = 0, ST_RUNNABLE, ST_JOINING, ST_DONE };
struct vt {
	sem_t sem;
	int st;
	int join_target;
	pthread_t pt;
	void *(*fn)(void *);
	void *arg;
	void *ret;
	int rid, rank;
	int last_site, last_stage;
	int joined, by_spawn;
	uint64_t prng;
};

static struct vt vts[RSV_MAXT];
static int nvt;
static __thread int me = -1;
static __thread int my_rank = 0;
static struct rsv_sched cfg;
static uint64_t rng;
static uint64_t steps, switches, last_progress;
static int burst_thr = -1;
static uint64_t burst_left;
static uint64_t hr_calls;
static int fair_mode, fair_next;
static uint64_t fair_deadline;
static uint64_t last_ev_step[RSV_MAXT];

struct rsv_rec *rsv_trace;
static size_t trace_cap;
static _Atomic size_t trace_n;
static _Atomic int trace_ovf;
static _Atomic uint64_t ev_seq;

void (*rsv_on_hang)(const char *why);
void (*rsv_ev_callback)(const struct rsv_rec *r);
void (*rsv_yield_callback)(int site, int thr);

static inline uint64_t nxt(void)
{
	uint64_t z = (rng += 0x9e3779b97f4a7c15ULL);
	z = (z ^ (z >> 30)) * 0xbf58476d1ce4e5b9ULL;
	z = (z ^ (z >> 27)) * 0x94d049bb133111ebULL;
	return z ^ (z >> 31);
}
static inline uint64_t nxt_thr(struct vt *v)
{
	uint64_t z = (v->prng += 0x9e3779b97f4a7c15ULL);
	z = (z ^ (z >> 30)) * 0xbf58476d1ce4e5b9ULL;
	z = (z ^ (z >> 27)) * 0x94d049bb133111ebULL;
	return z ^ (z >> 31);
}

uint64_t rsv_rand(void)
{
	return nxt();
}
uint64_t rsv_steps(void)
{
	return steps;
}
uint64_t rsv_switches(void)
{
	return switches;
}
int rsv_cur_thread(void)
{
	return me;
}
int rsv_cur_rid(void)
{
	return me >= 0 ? vts[me].rid : -1;
}
int rsv_nthreads_created(void)
{
	return nvt;
}
void rsv_set_rank(int rank)
{
	my_rank = rank;
	if(me >= 0)
		vts[me].rank = rank;
}
int rsv_get_rank(void)
{
	return my_rank;
}
int rsv_last_site(int thr)
{
	return vts[thr].last_site;
}
int rsv_last_stage(int thr)
{
	return vts[thr].last_stage;
}
int rsv_thread_done(int thr)
{
	return vts[thr].st == ST_DONE;
}
int rsv_thread_rid(int thr)
{
	return vts[thr].rid;
}
int rsv_thread_rank(int thr)
{
	return vts[thr].rank;
}

static void hang(const char *why);
/* watchdog (DET): the thread that holds the baton consumes CPU without ever reaching a scheduling point */
static pthread_t wd_thread;
static int wd_started;
static double cpu_now(void)
{
	struct timespec ts;
	clock_gettime(CLOCK_PROCESS_CPUTIME_ID, &ts);
	return (double)ts.tv_sec + (double)ts.tv_nsec * 1e-9;
}
static void *watchdog(void *arg)
{
	(void)arg;
	uint64_t last_steps = __atomic_load_n(&steps, __ATOMIC_RELAXED);
	double cpu_mark = cpu_now();
	for(;;) {
		struct timespec ts = {0, 200000000};
		nanosleep(&ts, NULL);
		uint64_t s = __atomic_load_n(&steps, __ATOMIC_RELAXED);
		if(s != last_steps || !rsv_on_hang) { /* armed only while the harness has a hang handler installed (= during the run) */
			last_steps = s;
			cpu_mark = cpu_now();
			continue;
		}
		if(cpu_now() - cpu_mark > (cfg.stuck_cpu_s ? cfg.stuck_cpu_s : 12.0))
			hang("stuck: a thread consumes CPU without reaching a scheduling point");
	}
	return NULL;
}

void rsv_rt_init(const struct rsv_sched *c)
{
	cfg = *c;
	if(!cfg.clock_div)
		cfg.clock_div = 4;
	if(!cfg.budget)
		cfg.budget = 50000000ULL;
	if(!cfg.noprogress)
		cfg.noprogress = 3000000ULL;
	if(!cfg.burst_max)
		cfg.burst_max = 3000;
	rng = cfg.seed * 0x9e3779b97f4a7c15ULL + 12345;
	memset(vts, 0, sizeof vts);
	nvt = 1;
	me = 0;
	vts[0].st = ST_RUNNABLE;
	vts[0].rid = -1;
	vts[0].rank = my_rank;
	vts[0].prng = cfg.seed ^ 0xabcdef;
	sem_init(&vts[0].sem, 0, 0);
	steps = switches = last_progress = 0;
	burst_thr = -1;
	burst_left = 0;
	hr_calls = 0;
	fair_mode = fair_next = 0;
	memset(last_ev_step, 0, sizeof last_ev_step);
	atomic_store(&trace_n, 0);
	atomic_store(&trace_ovf, 0);
	atomic_store(&ev_seq, 0);
	if(cfg.mode == RSV_MODE_DET && !wd_started) {
		wd_started = 1;
		pthread_create(&wd_thread, NULL, watchdog, NULL);
		pthread_detach(wd_thread);
	}
}

void rsv_trace_enable(size_t max_records)
{
	free(rsv_trace);
	rsv_trace = max_records ? calloc(max_records, sizeof *rsv_trace) : NULL;
	trace_cap = rsv_trace ? max_records : 0;
	atomic_store(&trace_n, 0);
	atomic_store(&trace_ovf, 0);
}
size_t rsv_trace_n(void)
{
	size_t n = atomic_load(&trace_n);
	return n > trace_cap ? trace_cap : n;
}
int rsv_trace_overflow(void)
{
	return atomic_load(&trace_ovf);
}

/* ---- DET scheduler ------------------------------------------------------ */
static void hang(const char *why)
{
	if(rsv_on_hang)
		rsv_on_hang(why);
	fprintf(stderr, "RSV hang (%s) steps=%llu\n", why, (unsigned long long)steps);
	_exit(77);
}

static int pick(int force_other, int site)
{
	int cand[RSV_MAXT], n = 0;
	for(int i = 0; i < nvt; i++) {
		if(vts[i].st == ST_RUNNABLE)
			cand[n++] = i;
		else if(vts[i].st == ST_JOINING && vts[vts[i].join_target].st == ST_DONE) {
			vts[i].st = ST_RUNNABLE;
			cand[n++] = i;
		}
	}
	if(!n)
		hang("deadlock: no runnable thread");
	if(fair_mode) { /* strict round robin: rules out starvation by the generated schedule before a hang is declared */
		for(int k = 0; k < nvt; k++) {
			int c = (fair_next + k) % nvt;
			if(vts[c].st == ST_RUNNABLE && !(force_other && c == me)) {
				fair_next = c + 1;
				return c;
			}
		}
		return cand[0];
	}
	/* a burst of a thread that only polls (no trace event for a while) is pointless */
	if(burst_left && burst_thr == me && me >= 0 && steps - last_ev_step[me] > 200)
		burst_left = 0;
	if(burst_left) {
		if(burst_thr < nvt && vts[burst_thr].st == ST_RUNNABLE && !force_other &&
		    !(burst_thr == me && site == RSV_SITE_BARRIER_SPIN)) {
			burst_left--;
			return burst_thr;
		}
		burst_left = 0;
	}
	if(cfg.burst_per_64k && (nxt() & 65535) < cfg.burst_per_64k) {
		burst_thr = cand[nxt() % n];
		burst_left = 100 + nxt() % cfg.burst_max;
		return burst_thr;
	}
	if(!force_other && me >= 0 && vts[me].st == ST_RUNNABLE) {
		unsigned p = cfg.switch_per_1024;
		if(site > 0 && site < 32 && (cfg.hot_sites >> site & 1U))
			p = 512;
		if(site == RSV_SITE_BARRIER_SPIN)
			p = 1024; /* never keep a thread that is spinning on others */
		if((nxt() & 1023) >= p)
			return me;
	}
	if(n > 1 && me >= 0 && site == RSV_SITE_BARRIER_SPIN) {
		/* choose somebody else when spinning */
		int k = (int)(nxt() % (unsigned)(n - 1));
		for(int i = 0; i < n; i++)
			if(cand[i] != me && k-- == 0)
				return cand[i];
	}
	return cand[nxt() % (unsigned)n];
}

static void switch_to(int next)
{
	if(next == me)
		return;
	switches++;
	int self = me;
	sem_post(&vts[next].sem);
	if(vts[self].st != ST_DONE)
		while(sem_wait(&vts[self].sem)) {
		}
}

static void free_perturb(int site)
{
	(void)site;
	struct vt *v = &vts[me];
	uint64_t r = nxt_thr(v);
	if((r & 1023) >= cfg.free_perturb_per_1024)
		return;
	unsigned k = (r >> 10) & 15;
	if(k < 8)
		sched_yield();
	else if(k < 15) {
		unsigned spins = (r >> 16) & 1023;
		for(volatile unsigned i = 0; i < spins; i++) {
		}
	} else {
		struct timespec ts = {0, (long)((r >> 20) & 0xffff)};
		nanosleep(&ts, NULL);
	}
}

void rsv_yield(int site)
{
	if(me < 0 || cfg.mode == RSV_MODE_OFF)
		return;
	vts[me].last_site = site;
	if(rsv_yield_callback)
		rsv_yield_callback(site, me);
	if(cfg.mode == RSV_MODE_FREE) {
		if(cfg.free_perturb_per_1024)
			free_perturb(site);
		return;
	}
	if(++steps > cfg.budget)
		hang("budget");
	if(steps - last_progress > cfg.noprogress) {
		if(!fair_mode) {
			fair_mode = 1;
			fair_deadline = steps + cfg.noprogress / 2 + 100000;
		} else if(steps > fair_deadline)
			hang("noprogress");
	}
	switch_to(pick(0, site));
}

int rsv_clock_virtual(void)
{
	return cfg.mode == RSV_MODE_DET;
}
uint64_t rsv_clock_us(void)
{
	return 1000000ULL + steps / cfg.clock_div;
}
uint64_t rsv_clock_hr(void)
{
	hr_calls += 13;
	return steps * 64 + hr_calls;
}
unsigned rsv_batch_size(unsigned dflt)
{
	return cfg.mode != RSV_MODE_OFF && cfg.batch ? cfg.batch : dflt;
}
int rsv_threads_virtual(void)
{
	return cfg.mode != RSV_MODE_OFF && me >= 0;
}

static void *tramp(void *p)
{
	int id = (int)(intptr_t)p;
	me = id;
	my_rank = vts[id].rank;
	if(cfg.mode == RSV_MODE_DET)
		while(sem_wait(&vts[id].sem)) {
		}
	vts[id].ret = vts[id].fn(vts[id].arg);
	if(cfg.mode == RSV_MODE_DET) {
		vts[id].st = ST_DONE;
		int n = pick(1, 0);
		switches++;
		sem_post(&vts[n].sem);
	} else {
		__atomic_store_n(&vts[id].st, ST_DONE, __ATOMIC_RELEASE);
	}
	return NULL;
}

static pthread_mutex_t spawn_lock = PTHREAD_MUTEX_INITIALIZER;

static int spawn_common(void *(*fn)(void *), void *arg, int rid_hint)
{
	pthread_mutex_lock(&spawn_lock);
	if(nvt >= RSV_MAXT) {
		fprintf(stderr, "RSV: too many threads\n");
		abort();
	}
	int id = nvt;
	vts[id].fn = fn;
	vts[id].arg = arg;
	vts[id].st = ST_RUNNABLE;
	vts[id].rid = rid_hint;
	vts[id].rank = my_rank;
	vts[id].prng = cfg.seed * 31 + (uint64_t)id * 0x9e3779b97f4a7c15ULL;
	vts[id].last_site = vts[id].last_stage = 0;
	vts[id].joined = 0;
	vts[id].by_spawn = rid_hint == -1;
	sem_init(&vts[id].sem, 0, 0);
	nvt = id + 1;
	pthread_attr_t at;
	pthread_attr_init(&at);
	/* default stack size: the core's thread-local arrays (2 x 512 KiB) live in the thread's stack mapping */
	int e = pthread_create(&vts[id].pt, &at, tramp, (void *)(intptr_t)id);
	pthread_attr_destroy(&at);
	pthread_mutex_unlock(&spawn_lock);
	if(e) {
		fprintf(stderr, "RSV: pthread_create failed\n");
		abort();
	}
	return id;
}

int rsv_thread_start(void *thr_p, void *(*fn)(void *), void *arg)
{
	/* the core passes the worker's rid as the thread argument */
	int id = spawn_common(fn, arg, (int)(uintptr_t)arg);
	*(pthread_t *)thr_p = vts[id].pt;
	return 0;
}

static void join_id(int id, void **ret)
{
	if(cfg.mode == RSV_MODE_DET && vts[id].st != ST_DONE) {
		vts[me].st = ST_JOINING;
		vts[me].join_target = id;
		int n = pick(1, 0);
		if(n != me) {
			switches++;
			sem_post(&vts[n].sem);
			while(sem_wait(&vts[me].sem)) {
			}
		}
		vts[me].st = ST_RUNNABLE;
	}
	if(!vts[id].joined)
		pthread_join(vts[id].pt, NULL);
	vts[id].joined = 1;
	if(ret)
		*ret = vts[id].ret;
}

int rsv_thread_join(void *thr_p, void **ret)
{
	pthread_t pt = *(pthread_t *)thr_p;
	for(int i = 1; i < nvt; i++)
		if(pthread_equal(vts[i].pt, pt)) {
			join_id(i, ret);
			return 0;
		}
	return -1;
}

int rsv_spawn(void *(*fn)(void *), void *arg)
{
	return spawn_common(fn, arg, -1);
}

static int joined_upto = 1;
void rsv_join_all(void)
{
	/* only the threads started by the harness itself; the core joins its own workers */
	for(int i = 1; i < nvt; i++)
		if(vts[i].by_spawn && !vts[i].joined)
			join_id(i, NULL);
	joined_upto = nvt;
}

/* ---- trace -------------------------------------------------------------- */
static inline int kind_has_msg(int kind)
{
	switch(kind) {
		case RSV_EV_EXTRACT:
		case RSV_EV_PROCESS:
		case RSV_EV_UNPROCESS:
		case RSV_EV_ANTI_REMOTE:
		case RSV_EV_SILENT:
		case RSV_EV_SEND_LOCAL:
		case RSV_EV_SEND_REMOTE:
		case RSV_EV_FOSSIL_ENTRY:
		case RSV_EV_FINI_ENTRY:
		case RSV_EV_QUEUE_LEFT:
		case RSV_EV_EARLY_ANTI:
		case RSV_EV_EARLY_MATCH:
		case RSV_EV_REMOTE_ANTI:
		case RSV_EV_ANTI_DROP:
		case RSV_EV_REMOTE_RECV:
		case RSV_EV_AT_GVT_FREE:
			return 1;
		default:
			return 0;
	}
}

void rsv_ev(int kind, const void *p, uint64_t a, uint64_t b, double t)
{
	if(kind == RSV_EV_STAGE && me >= 0)
		vts[me].last_stage = (int)a;
	if(kind != RSV_EV_MSG_ALLOC && kind != RSV_EV_MSG_FREE) {
		last_progress = steps;
		fair_mode = 0;
		if(me >= 0)
			last_ev_step[me] = steps;
	}
	if(!trace_cap && !rsv_ev_callback)
		return;
	struct rsv_rec tmp, *r = &tmp;
	size_t idx = 0;
	if(trace_cap) {
		idx = atomic_fetch_add(&trace_n, 1);
		if(idx >= trace_cap) {
			atomic_store(&trace_ovf, 1);
			if(!rsv_ev_callback)
				return;
		} else
			r = &rsv_trace[idx];
	}
	memset(r, 0, sizeof *r);
	r->seq = atomic_fetch_add(&ev_seq, 1);
	r->kind = (uint16_t)kind;
	r->thr = (int16_t)me;
	r->rid = (int16_t)(me >= 0 ? vts[me].rid : -1);
	r->rank = (int16_t)my_rank;
	r->p = p;
	r->a = a;
	r->b = b;
	r->t = t;
	if(kind_has_msg(kind) && p) {
		r->tag = (uint32_t)((uintptr_t)p & 3U);
		const struct lp_msg *m = unmark_msg(p);
		r->p = m;
		/* a locally sent entry belongs to its receiver, which may have released it already */
		if((kind == RSV_EV_FOSSIL_ENTRY || kind == RSV_EV_FINI_ENTRY) && r->tag == 1U)
			m = NULL;
	if(m) {
		r->m_dest = m->dest;
		r->m_t = m->dest_t;
		r->m_type = m->m_type;
		r->m_size = m->pl_size;
		r->m_flags = m->raw_flags;
		r->m_seq = m->m_seq;
		if(kind != RSV_EV_EARLY_ANTI && !(kind == RSV_EV_REMOTE_RECV && a))
			r->m_plhash = rsv_plhash(m->pl, m->pl_size);
	}
	}
	if(rsv_ev_callback)
		rsv_ev_callback(r);
}
